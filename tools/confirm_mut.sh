#!/bin/bash
# confirm_mut.sh <worktree> <patch> <demo.rs> : confirms a seeded change in its scratch worktree:
#   suite passes with the change (modulo the 2 baseline failures), demo fails with it and passes without it.
WT="$1"; PATCH="$2"; DEMO="$3"; NAME=$(basename "$DEMO" .rs)
export CARGO_NET_OFFLINE=true CARGO_TARGET_DIR="$WT/target"
cd "$WT" || exit 2
git checkout -q -- src; rm -f tests/demo_*.rs tests/$NAME.rs
git apply "$PATCH" || { echo "RESULT patch-does-not-apply"; exit 2; }
cargo test --offline --no-fail-fast >"$WT/_out/confirm_suite_$NAME.log" 2>&1
FAILED=$(grep -E "^test .* FAILED$|^test .*\.\.\. FAILED" "$WT/_out/confirm_suite_$NAME.log" | grep -v "peek_test" | grep -v "src/lib.rs - (line 33)" | sort -u)
cp "$DEMO" tests/$NAME.rs
cargo test --offline --test $NAME >"$WT/_out/confirm_demo_with_$NAME.log" 2>&1; WITH=$?
git checkout -q -- src
cargo test --offline --test $NAME >"$WT/_out/confirm_demo_without_$NAME.log" 2>&1; WITHOUT=$?
rm -f tests/$NAME.rs
echo "RESULT suite_extra_failures=[$(echo $FAILED | tr '\n' ' ')] demo_with_patch_exit=$WITH demo_without_patch_exit=$WITHOUT"
