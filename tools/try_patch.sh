#!/bin/bash
# try_patch.sh <patch> <Cxx> [<Cxx>...] : applies a seeded change to /repo, runs the quick checks, undoes it straight afterwards
PATCH="$1"; shift
cd /verif || exit 2
git -C /repo apply "$PATCH" || { echo "patch does not apply"; exit 2; }
for P in "$@"; do
  ./check "$P" quick 2>&1 | grep -v "^test panicked" | grep -E "VIOLATION|oracle=|HARNESS|harness error|^C[0-9]+ quick: [0-9]" | cut -c1-260
  echo "exit($P)=${PIPESTATUS[0]}"
done
git -C /repo checkout -- .
