//! Engine D: discrete-event time. A run builds a tokio current-thread runtime with a paused clock (virtual time that
//! jumps to the next timer when nothing is runnable) and drives real `StreamExecutor`s / `Uni`s / `Multi`s in it.
//! Scenario families: `exec_raw` (C11, C12), `uni_exec` (C06, C12), `multi_exec` (C06, C12).

use crate::ctx::{self, SchedSpec};
use crate::engine_t::{run_passive, RunOut};
use crate::framework::{Scenario, Tier};
use crate::rng::Rng;
use futures::stream::StreamExt;
use reactive_mutiny::prelude::advanced::*;
use reactive_mutiny::stream_executor::{ExecutorStatus, StreamExecutor, StreamExecutorStats};
use serde::{Deserialize, Serialize};
use std::sync::atomic::Ordering::Relaxed;
use std::sync::{Arc, Mutex};
use std::time::Duration;

pub const I_NONE: usize = Instruments::NoInstruments.into();
pub const I_LOGS: usize = Instruments::LogsWithoutMetrics.into();
pub const I_METRICS: usize = Instruments::MetricsWithoutLogs.into();
pub const I_BOTH: usize = Instruments::LogsWithMetrics.into();
pub const I_CUSTOM_COUNTERS: usize = Instruments::Custom(1).into();
pub const I_CUSTOM_COUNTERS_SATURATION: usize = Instruments::Custom(1 | 2).into();
pub const I_EXPENSIVE: usize = Instruments::ExpensiveMetricsWithoutLogs.into();

#[derive(Clone, Copy, Debug, PartialEq, Eq, Serialize, Deserialize)]
pub enum ExecKind {
    /// spawn_executor: future items that yield Result (on_err callback)
    FuturesFallible,
    /// spawn_futures_executor: future items, infallible
    Futures,
    /// spawn_fallibles_executor: plain Result items (on_err callback)
    Fallibles,
    /// spawn_non_futures_non_fallibles_executor
    Plain,
}

impl ExecKind {
    pub fn name(self) -> &'static str {
        match self {
            ExecKind::FuturesFallible => "futures_fallible",
            ExecKind::Futures => "futures",
            ExecKind::Fallibles => "fallibles",
            ExecKind::Plain => "non_futures_non_fallibles",
        }
    }
    pub fn is_future(self) -> bool {
        matches!(self, ExecKind::FuturesFallible | ExecKind::Futures)
    }
    pub fn is_fallible(self) -> bool {
        matches!(self, ExecKind::FuturesFallible | ExecKind::Fallibles)
    }
}

pub const EXEC_KINDS: [ExecKind; 4] = [ExecKind::FuturesFallible, ExecKind::Futures, ExecKind::Fallibles, ExecKind::Plain];

/// per-run ledger of what the pipeline items did, in virtual time
#[derive(Default, Debug)]
pub struct ItemLedger {
    pub started: Vec<(u32, u64)>,
    pub finished: Vec<(u32, u64)>,
    pub dropped_unfinished: Vec<(u32, u64)>,
    pub in_flight: i64,
    pub max_in_flight: i64,
    pub on_err_calls: Vec<(String, u64)>,
    pub close_calls: Vec<(String, u64)>,
    /// what the close callback found at the instant it was *invoked* (its synchronous part, before the future it
    /// returns is first polled): (executor status, virtual time, finish delta >= start delta)
    pub close_invocations: Vec<(String, u64, bool)>,
    pub uni_close_calls: Vec<u64>,
    pub uni_close_invocations: Vec<u64>,
    pub notes: Vec<String>,
}

pub type LedgerRef = Arc<Mutex<ItemLedger>>;

pub fn now_ms(t0: tokio::time::Instant) -> u64 {
    t0.elapsed().as_micros() as u64
}

/// counts an item future as in flight from its first poll until it completes or is dropped
pub struct FlightGuard {
    ledger: LedgerRef,
    id: u32,
    finished: bool,
    t0: tokio::time::Instant,
}
impl FlightGuard {
    pub fn start(ledger: &LedgerRef, id: u32, t0: tokio::time::Instant) -> Self {
        {
            let mut l = ledger.lock().unwrap();
            l.started.push((id, now_ms(t0)));
            l.in_flight += 1;
            l.max_in_flight = l.max_in_flight.max(l.in_flight);
        }
        FlightGuard { ledger: Arc::clone(ledger), id, finished: false, t0 }
    }
    pub fn finish(mut self) {
        self.finished = true;
        let mut l = self.ledger.lock().unwrap();
        l.finished.push((self.id, now_ms(self.t0)));
    }
}
impl Drop for FlightGuard {
    fn drop(&mut self) {
        let mut l = self.ledger.lock().unwrap();
        l.in_flight -= 1;
        if !self.finished {
            l.dropped_unfinished.push((self.id, now_ms(self.t0)));
        }
    }
}

fn paused_runtime() -> tokio::runtime::Runtime {
    tokio::runtime::Builder::new_current_thread().enable_time().start_paused(true).build().expect("tokio runtime")
}

type BoxErr = Box<dyn std::error::Error + Send + Sync>;

// =============================================================================================================
// exec_raw: StreamExecutor fed from a controllable stream
// =============================================================================================================

#[derive(Clone, Copy, Debug, PartialEq, Eq, Serialize, Deserialize)]
pub struct RawItem {
    pub fails: bool,
    /// virtual processing time (future kinds only)
    pub delay_ms: u32,
    /// a failing item of the futures-fallible executor fails with a `tokio::time::error::Elapsed` of its own (a pipeline that
    /// uses `tokio::time::timeout(..).await?` inside): still a *failed* item, not one the executor timed out
    #[serde(default)]
    pub elapsed_err: bool,
}

#[derive(Clone, Debug, Serialize, Deserialize)]
pub struct RawParams {
    pub sched: SchedSpec,
    pub exec: ExecKind,
    /// 0 none, 1 logs, 2 metrics, 3 logs+metrics, 4 Custom(COUNTERS), 5 Custom(COUNTERS | SATURATION), 6 expensive metrics
    pub instruments: u8,
    pub limit: u32,
    /// 0 = no futures timeout
    pub timeout_ms: u32,
    pub items: Vec<RawItem>,
    /// virtual gap between two items offered by the source stream
    pub feed_gap_ms: u32,
    /// call report_scheduled_to_finish() after this many ms (0 = never)
    pub schedule_finish_after_ms: u32,
    /// the time unit all the `_ms` fields above are expressed in, in microseconds (1000 = they really are milliseconds;
    /// smaller units put the timeout and the item delays below one millisecond)
    #[serde(default = "default_unit_us")]
    pub unit_us: u32,
    /// virtual time the (async) error callback takes before it returns (futures-fallible executor): a slow error handler
    #[serde(default)]
    pub err_cb_ms: u32,
}

fn default_unit_us() -> u32 {
    1000
}

fn raw_run<const I: usize>(p: &RawParams) {
    let rt = paused_runtime();
    let ledger: LedgerRef = Default::default();
    let p = p.clone();
    let key = |oracle: &str| format!("exec_raw/{}/{}", p.exec.name(), oracle);
    let metrics_on = Instruments::from(I).metrics();
    let ledger2 = Arc::clone(&ledger);
    let stats_holder: Arc<Mutex<Option<Arc<dyn StreamExecutorStats + Send + Sync>>>> = Default::default();
    let stats_holder2 = Arc::clone(&stats_holder);
    let p2 = p.clone();
    let unit_us = p.unit_us.max(1) as u64;
    let units = move |n: u32| Duration::from_micros(n as u64 * unit_us);
    let metric_origin = p.sched.metric_origin;
    let err_cb_ms = p.err_cb_ms;
    rt.block_on(async move {
        let t0 = tokio::time::Instant::now();
        let executor = if p2.timeout_ms > 0 { StreamExecutor::<I>::with_futures_timeout("raw", units(p2.timeout_ms)) } else { StreamExecutor::<I>::new("raw") };
        let exec_for_schedule = Arc::clone(&executor);
        let items = p2.items.clone();
        let gap = p2.feed_gap_ms;
        // the source stream: yields item indices, optionally spaced in virtual time
        let source = futures::stream::unfold(0usize, move |i| {
            let n = items.len();
            async move {
                if i >= n {
                    return None;
                }
                if gap > 0 && i > 0 {
                    tokio::time::sleep(units(gap)).await;
                }
                Some((i, i + 1))
            }
        });
        let l_close = Arc::clone(&ledger2);
        let close_cb = move |stats: Arc<dyn StreamExecutorStats + Send + Sync>| {
            let l_close = Arc::clone(&l_close);
            let stats_holder2 = Arc::clone(&stats_holder2);
            {
                let mut l = l_close.lock().unwrap();
                let done = l.on_err_calls.len();
                l.notes.push(format!("on_err_returned_at_close={}", done));
                l.close_invocations.push((format!("{:?}", stats.executor_status().load(Relaxed)), now_ms(t0), stats.execution_finish_delta_nanos() >= stats.execution_start_delta_nanos()));
            }
            async move {
                let status = stats.executor_status().load(Relaxed);
                l_close.lock().unwrap().close_calls.push((format!("{:?}", status), now_ms(t0)));
                *stats_holder2.lock().unwrap() = Some(stats);
            }
        };
        let l_err = Arc::clone(&ledger2);
        let items2 = p2.items.clone();
        match p2.exec {
            ExecKind::FuturesFallible => {
                let l_items = Arc::clone(&ledger2);
                let stream = source.map(move |i| {
                    let item = items2[i];
                    let l = Arc::clone(&l_items);
                    async move {
                        let guard = FlightGuard::start(&l, i as u32, t0);
                        if item.delay_ms > 0 {
                            tokio::time::sleep(units(item.delay_ms)).await;
                        }
                        guard.finish();
                        if item.fails && item.elapsed_err {
                            let elapsed = tokio::time::timeout(Duration::ZERO, std::future::pending::<()>()).await.expect_err("a zero timeout on a pending future elapses");
                            Err::<u32, BoxErr>(Box::new(elapsed))
                        } else if item.fails {
                            Err::<u32, BoxErr>(Box::from(format!("item {} failed", i)))
                        } else {
                            Ok(i as u32)
                        }
                    }
                });
                executor.spawn_executor(
                    p2.limit,
                    move |err| {
                        let l_err = Arc::clone(&l_err);
                        async move {
                            if err_cb_ms > 0 {
                                tokio::time::sleep(units(err_cb_ms)).await;
                            }
                            l_err.lock().unwrap().on_err_calls.push((err.to_string(), now_ms(t0)));
                        }
                    },
                    close_cb,
                    stream,
                );
            }
            ExecKind::Futures => {
                let l_items = Arc::clone(&ledger2);
                let stream = source.map(move |i| {
                    let item = items2[i];
                    let l = Arc::clone(&l_items);
                    async move {
                        let guard = FlightGuard::start(&l, i as u32, t0);
                        if item.delay_ms > 0 {
                            tokio::time::sleep(units(item.delay_ms)).await;
                        }
                        guard.finish();
                        i as u32
                    }
                });
                executor.spawn_futures_executor(p2.limit, close_cb, stream);
            }
            ExecKind::Fallibles => {
                let l_items = Arc::clone(&ledger2);
                let stream = source.map(move |i| {
                    let item = items2[i];
                    FlightGuard::start(&l_items, i as u32, t0).finish();
                    if item.fails {
                        Err::<u32, BoxErr>(Box::from(format!("item {} failed", i)))
                    } else {
                        Ok(i as u32)
                    }
                });
                executor.spawn_fallibles_executor(
                    p2.limit,
                    move |err| {
                        l_err.lock().unwrap().on_err_calls.push((err.to_string(), now_ms(t0)));
                    },
                    close_cb,
                    stream,
                );
            }
            ExecKind::Plain => {
                let l_items = Arc::clone(&ledger2);
                let stream = source.map(move |i| {
                    FlightGuard::start(&l_items, i as u32, t0).finish();
                    i as u32
                });
                executor.spawn_non_futures_non_fallibles_executor(p2.limit, close_cb, stream);
            }
        }
        if p2.schedule_finish_after_ms > 0 {
            tokio::time::sleep(units(p2.schedule_finish_after_ms)).await;
            exec_for_schedule.report_scheduled_to_finish();
            ledger2.lock().unwrap().notes.push("scheduled_to_finish".into());
        }
        // let everything play out (virtual time)
        tokio::time::sleep(Duration::from_secs(3600)).await;
    });
    ctx::with_ctx(|c| c.sim_time_ns += 3_600_000_000_000);
    drop(rt);
    // ---- oracles
    let l = ledger.lock().unwrap();
    let n = p.items.len();
    let timeout_active = p.exec.is_future() && p.timeout_ms > 0;
    let expect_timed_out: Vec<usize> = (0..n).filter(|i| timeout_active && p.items[*i].delay_ms > p.timeout_ms).collect();
    let expect_failed: Vec<usize> = (0..n).filter(|i| p.exec.is_fallible() && p.items[*i].fails && !expect_timed_out.contains(i)).collect();
    let scheduled = l.notes.iter().any(|s| s == "scheduled_to_finish");
    // every item was processed (a failed or timed-out item does not stop later ones)
    if l.started.len() != n {
        ctx::report("C11", "items_not_all_processed", key("items_not_all_processed"), format!("{} of {} items were started by the executor (items: {:?})", l.started.len(), n, p.items));
    }
    // on_err: exactly once per failed item, never otherwise
    if p.exec.is_fallible() && l.on_err_calls.len() != expect_failed.len() {
        ctx::report("C11", "on_err_count", key("on_err_count"), format!("on_err callback invoked {} times for {} failed items (timed-out items excluded)", l.on_err_calls.len(), expect_failed.len()));
    }
    // timed-out futures are cancelled (dropped unfinished), others complete
    if p.exec.is_future() {
        let dropped: Vec<u32> = l.dropped_unfinished.iter().map(|(i, _)| *i).collect();
        let mut expected: Vec<u32> = expect_timed_out.iter().map(|i| *i as u32).collect();
        let mut got = dropped.clone();
        got.sort_unstable();
        expected.sort_unstable();
        if got != expected {
            ctx::report("C11", "timeout_cancellation", key("timeout_cancellation"), format!("item futures cancelled before completion: {:?}; items slower than the timeout of {} x {} us: {:?}", got, p.timeout_ms, p.unit_us, expected));
        }
        if l.max_in_flight > p.limit as i64 {
            ctx::report("C11", "concurrency_limit", key("concurrency_limit"), format!("{} item futures were in progress at the same time with a concurrency limit of {}", l.max_in_flight, p.limit));
        }
    }
    // counters
    let stats = stats_holder.lock().unwrap().clone();
    if let Some(stats) = stats.as_ref() {
        // the counters started at `metric_origin` (the "counter jump": as if that many items had already been counted)
        let (ok, _) = stats.ok_events_avg_future_duration().probe();
        let (timed_out, _) = stats.timed_out_events_avg_future_duration().probe();
        let (failed, _) = stats.failed_events_avg_future_duration().probe();
        let (ok, timed_out, failed) = (ok.wrapping_sub(metric_origin) as u64, timed_out.wrapping_sub(metric_origin) as u64, failed.wrapping_sub(metric_origin) as u64);
        if metrics_on {
            if metric_origin != 0 {
                ctx::with_ctx(|c| *c.faults.entry("metric_counter_jump").or_insert(0) += 1);
            }
            if (ok + timed_out + failed) as usize != n {
                ctx::report("C11", "counters_sum", key("counters_sum"), format!("ok {} + timed_out {} + failed {} != {} items (counters started at {})", ok, timed_out, failed, n, metric_origin));
            } else if timed_out as usize != expect_timed_out.len() || failed as usize != expect_failed.len() {
                ctx::report("C11", "counters_split", key("counters_split"), format!("ok {} / timed_out {} / failed {} but the workload had {} timed-out and {} failed items of {}", ok, timed_out, failed, expect_timed_out.len(), expect_failed.len(), n));
            }
        }
        // C12: state seen by the close callback
        let start = stats.execution_start_delta_nanos();
        let finish = stats.execution_finish_delta_nanos();
        if finish < start {
            ctx::report("C12", "finish_before_start", key("finish_before_start"), format!("execution_finish_delta_nanos {} < execution_start_delta_nanos {}", finish, start));
        }
    }
    // C12: close callback exactly once, after the last item, in an 'ended' state
    if l.close_calls.len() != 1 {
        ctx::report("C12", "close_callback_count", key("close_callback_count"), format!("the executor's close callback ran {} times", l.close_calls.len()));
    } else {
        let (status, at) = &l.close_calls[0];
        let last_item = l.finished.iter().map(|(_, t)| *t).chain(l.dropped_unfinished.iter().map(|(_, t)| *t)).max().unwrap_or(0);
        if *at < last_item || l.started.len() != n {
            ctx::report("C12", "close_before_last_item", key("close_before_last_item"), format!("close callback at {} us but the last item finished at {} us ({} of {} items started)", at, last_item, l.started.len(), n));
        }
        let ended_ok = status == &format!("{:?}", ExecutorStatus::StreamEnded) || (status == &format!("{:?}", ExecutorStatus::ProgrammaticallyEnded) && scheduled);
        if !ended_ok {
            ctx::report("C12", "status_in_close_callback", key("status_in_close_callback"), format!("the close callback found the executor in state {} (scheduled to finish: {})", status, scheduled));
        }
    }
    // a failed item is fully processed when its error callback has returned: none may still be running at the close callback
    if let Some(n) = l.notes.iter().find_map(|n| n.strip_prefix("on_err_returned_at_close=")).and_then(|v| v.parse::<usize>().ok()) {
        if n < l.on_err_calls.len() {
            ctx::report("C12", "close_before_error_callback_returned", key("close_before_error_callback_returned"), format!("the close callback was invoked when {} of the {} error callbacks of this stream had returned (a failed item is not fully processed before its error callback returns)", n, l.on_err_calls.len()));
        }
    }
    // ... and the same at the instant the callback is invoked (not only when the future it returns is polled)
    if l.close_invocations.len() != 1 {
        ctx::report("C12", "close_callback_count", key("close_callback_count"), format!("the executor's close callback was invoked {} times", l.close_invocations.len()));
    } else {
        let (status, at, finish_ok) = &l.close_invocations[0];
        let last_item = l.finished.iter().map(|(_, t)| *t).chain(l.dropped_unfinished.iter().map(|(_, t)| *t)).max().unwrap_or(0);
        let ended_ok = status == &format!("{:?}", ExecutorStatus::StreamEnded) || (status == &format!("{:?}", ExecutorStatus::ProgrammaticallyEnded) && scheduled);
        if *at < last_item || !ended_ok || !finish_ok {
            ctx::report("C12", "close_callback_invoked_early", key("close_callback_invoked_early"), format!("the close callback was invoked at {} us (last item finished at {} us) and found the executor in state {} (scheduled to finish: {}), finish time not before start time: {}", at, last_item, status, scheduled, finish_ok));
        }
    }
}

pub struct ExecRaw {
    pub property: &'static str,
}

fn draw_items(rng: &mut Rng, exec: ExecKind, timeout_ms: u32, max_items: u64, unit_us: u32) -> Vec<RawItem> {
    let n = rng.below(max_items + 1) as usize;
    // tokio's timer fires at millisecond ticks and a timeout polls its item first: an item is *surely* cancelled only if
    // its deadline lies in a later tick than the timeout's, so with sub-millisecond units "slower than the timeout" is
    // drawn at least two milliseconds slower (a faster item is never cancelled, whatever the tick)
    let margin = if unit_us >= 1000 { 0 } else { 2000u32.div_ceil(unit_us.max(1)) };
    (0..n)
        .map(|_| {
            let slow = exec.is_future() && timeout_ms > 0 && rng.chance(1, 4);
            let delay_ms = if !exec.is_future() {
                0
            } else if slow {
                timeout_ms + margin + 1 + rng.below(40) as u32
            } else if timeout_ms > 0 {
                rng.below(timeout_ms as u64) as u32 // never equal to the timeout
            } else {
                rng.below(25) as u32
            };
            let fails = exec.is_fallible() && rng.chance(1, 4);
            RawItem { fails, delay_ms, elapsed_err: fails && exec == ExecKind::FuturesFallible && rng.chance(1, 3) }
        })
        .collect()
}

impl Scenario for ExecRaw {
    type P = RawParams;
    fn property(&self) -> &'static str {
        self.property
    }
    fn name(&self) -> &'static str {
        "exec_raw"
    }
    fn engine(&self) -> &'static str {
        "D"
    }
    fn generate(&self, rng: &mut Rng, tier: Tier) -> RawParams {
        let exec = *rng.pick(&EXEC_KINDS);
        let timeout_ms = if exec.is_future() && rng.chance(1, 2) { 10 + rng.below(91) as u32 } else { 0 };
        let max_items = if tier == Tier::Thorough { 24 } else { 16 };
        let unit_us: u32 = *rng.pick(&[1000, 1000, 1000, 250, 37, 10, 1]);
        let mut sched = SchedSpec::draw(rng);
        // "counter jump": the metric counters start as if many items had been counted before (never next to the
        // documented reset at u32::MAX)
        if rng.chance(1, 4) {
            let base: u32 = *rng.pick(&[1 << 8, 1 << 16, 1 << 23, 1 << 24, 1 << 25, 1 << 31, 1_000_000, 3_000_000_000]);
            sched.metric_origin = base - rng.below(max_items + 4) as u32;
        }
        RawParams {
            sched,
            exec,
            instruments: rng.below(7) as u8,
            limit: 1 + rng.below(8) as u32,
            timeout_ms,
            items: draw_items(rng, exec, timeout_ms, max_items, unit_us),
            feed_gap_ms: *rng.pick(&[0, 0, 1, 7]),
            schedule_finish_after_ms: if rng.chance(1, 4) { 1 + rng.below(60) as u32 } else { 0 },
            unit_us,
            err_cb_ms: *rng.pick(&[0, 0, 1, 3]),
        }
    }
    fn sched<'a>(&self, p: &'a RawParams) -> &'a SchedSpec {
        &p.sched
    }
    fn with_sched(&self, p: &RawParams, s: SchedSpec) -> RawParams {
        let mut q = p.clone();
        q.sched = s;
        q
    }
    fn execute(&self, p: &RawParams, trace: bool) -> RunOut {
        let p2 = p.clone();
        let (out, _) = run_passive(&p.sched, trace, move || match p2.instruments {
            0 => raw_run::<I_NONE>(&p2),
            1 => raw_run::<I_LOGS>(&p2),
            2 => raw_run::<I_METRICS>(&p2),
            3 => raw_run::<I_BOTH>(&p2),
            // custom sets: metrics switched on through the counters only / counters + saturation (no profiling bit)
            4 => raw_run::<I_CUSTOM_COUNTERS>(&p2),
            5 => raw_run::<I_CUSTOM_COUNTERS_SATURATION>(&p2),
            _ => raw_run::<I_EXPENSIVE>(&p2),
        });
        out
    }
    fn shrink(&self, p: &RawParams) -> Vec<RawParams> {
        let mut out = vec![];
        for i in (0..p.items.len()).rev() {
            let mut q = p.clone();
            q.items.remove(i);
            out.push(q);
        }
        for i in 0..p.items.len() {
            if p.items[i].fails {
                let mut q = p.clone();
                q.items[i].fails = false;
                out.push(q);
            }
            if p.items[i].delay_ms > 0 && (p.timeout_ms == 0 || p.items[i].delay_ms < p.timeout_ms) {
                let mut q = p.clone();
                q.items[i].delay_ms = 0;
                out.push(q);
            }
        }
        if p.feed_gap_ms > 0 {
            let mut q = p.clone();
            q.feed_gap_ms = 0;
            out.push(q);
        }
        if p.schedule_finish_after_ms > 0 {
            let mut q = p.clone();
            q.schedule_finish_after_ms = 0;
            out.push(q);
        }
        if p.limit > 1 {
            let mut q = p.clone();
            q.limit -= 1;
            out.push(q);
        }
        if p.unit_us != 1000 {
            let mut q = p.clone();
            q.unit_us = 1000;
            out.push(q);
        }
        if p.sched.metric_origin != 0 {
            let mut q = p.clone();
            q.sched.metric_origin = 0;
            out.push(q);
        }
        out
    }
    fn size(&self, p: &RawParams) -> u64 {
        p.items.len() as u64 * 3 + p.limit as u64
    }
    fn nontrivial(&self, p: &RawParams, _out: &RunOut) -> bool {
        p.items.len() >= 2
    }
    fn distinct_key(&self, p: &RawParams, _out: &RunOut) -> u64 {
        let mut h = 0xcbf29ce484222325u64;
        let s = serde_json::to_string(&(p.exec, p.instruments, p.limit, p.timeout_ms, &p.items, p.feed_gap_ms, p.schedule_finish_after_ms, p.unit_us, p.sched.metric_origin)).unwrap_or_default();
        for b in s.bytes() {
            h = (h ^ b as u64).wrapping_mul(0x100000001b3);
        }
        h
    }
    fn components(&self) -> serde_json::Value {
        serde_json::json!({"real": ["reactive-mutiny StreamExecutor (/repo working tree)", "tokio current-thread runtime with paused (virtual) clock", "futures"], "stub": []})
    }
    fn assumptions(&self) -> Vec<String> {
        vec![
            "single current-thread tokio runtime under virtual time: all task interleavings happen at await points; multi-threaded runtimes are not simulated".into(),
            "item delays are never equal to the futures timeout".into(),
            "real TSC readings (minstant) feed only duration averages, which no oracle reads".into(),
        ]
    }
}

// =============================================================================================================
// uni_exec / multi_exec: whole Uni / Multi objects with executors; graceful close (C06) and life cycle (C12)
// =============================================================================================================

use crate::chan::{self, Kind};
use reactive_mutiny::multi::Multi;
use reactive_mutiny::uni::Uni;

pub trait AsId: Send + Sync + std::fmt::Debug + 'static {
    fn as_id(&self) -> u32;
}
impl AsId for u32 {
    fn as_id(&self) -> u32 {
        *self
    }
}
impl AsId for Arc<u32> {
    fn as_id(&self) -> u32 {
        **self
    }
}
impl<A: BoundedOgreAllocator<u32> + Send + Sync + 'static> AsId for OgreUnique<u32, A> {
    fn as_id(&self) -> u32 {
        **self
    }
}
impl<A: BoundedOgreAllocator<u32> + Send + Sync + 'static> AsId for OgreArc<u32, A> {
    fn as_id(&self) -> u32 {
        **self
    }
}
impl AsId for &'static u32 {
    fn as_id(&self) -> u32 {
        **self
    }
}

#[derive(Clone, Copy, Debug, PartialEq, Eq, Serialize, Deserialize)]
pub struct WorkEvent {
    /// virtual time the producer waits before sending this event (0: none; 1..: sleep; u32::MAX: a bare yield)
    pub gap_ms: u32,
    /// processing time of this event in the pipeline (future kinds)
    pub delay_ms: u32,
    pub fails: bool,
}

#[derive(Clone, Debug, Serialize, Deserialize)]
pub struct ObjParams {
    pub sched: SchedSpec,
    pub kind: Kind,
    pub max_streams: usize,
    /// multi: number of listeners (executors) spawned
    pub listeners: usize,
    /// 0 none, 3 logs+metrics
    pub instruments: u8,
    pub exec: ExecKind,
    pub limit: u32,
    pub timeout_ms: u32,
    pub events: Vec<WorkEvent>,
    /// virtual time between the last send and the close call (u32::MAX: a bare yield; 0: immediately)
    pub close_gap_ms: u32,
    /// multi: per-listener processing-time multiplier (x1, x2, x3 ...)
    pub listener_slowness: Vec<u32>,
    /// multi: cancel this listener alone (flush_and_cancel_executor) after event #n was sent, before the final close
    pub cancel_one: Option<(usize, usize)>,
    /// `channel.cancel_all_streams()` is called (and this much virtual time passes: u32::MAX = a bare yield) before the
    /// graceful, unbounded close: every stream has already been told to end and may still be draining and processing
    #[serde(default)]
    pub pre_cancel_ms: Option<u32>,
}

const OBJ_BUFFER: usize = 8;

async fn gap(ms: u32) {
    if ms == u32::MAX {
        tokio::task::yield_now().await;
    } else if ms > 0 {
        tokio::time::sleep(Duration::from_millis(ms as u64)).await;
    }
}

fn limit_class(limit: u32) -> &'static str {
    if limit <= 1 {
        "limit1"
    } else {
        "limit2+"
    }
}

struct CloseVerdict {
    /// (listener, event id) entitled but not fully processed when close() returned
    unprocessed: Vec<(usize, u32)>,
    running_streams: u32,
    channel_open: bool,
    pending: u32,
    close_answer: bool,
}

fn check_c06(p: &ObjParams, family: &str, v: &CloseVerdict, never_processed: &[(usize, u32)]) {
    let key = |oracle: &str| format!("{}/{}/{}/{}/{}", family, p.kind.name(), p.exec.name(), limit_class(p.limit), oracle);
    if !v.unprocessed.is_empty() {
        ctx::report(
            "C06",
            "close_before_processed",
            key("close_before_processed"),
            format!("close(ZERO) returned (answer {}) while accepted events were not yet fully processed by the pipeline of every entitled stream: (listener, event) = {:?}", v.close_answer, v.unprocessed),
        );
    }
    if v.running_streams != 0 {
        ctx::report("C06", "streams_running_after_close", key("streams_running_after_close"), format!("running_streams_count() == {} right after close() returned", v.running_streams));
    }
    if v.channel_open {
        ctx::report("C06", "channel_open_after_close", key("channel_open_after_close"), "is_channel_open() still answers true right after close() returned".into());
    }
    if v.pending != 0 {
        ctx::report("C06", "pending_after_close", key("pending_after_close"), format!("pending_items_count() == {} right after close() returned", v.pending));
    }
    if !never_processed.is_empty() {
        ctx::report("C06", "event_discarded", key("event_discarded"), format!("accepted events were never processed, even long after close(): (listener, event) = {:?}", never_processed));
    }
}

/// builds the item future / item value for event `id` on listener `li`
fn processing_delay(p: &ObjParams, li: usize, id: u32) -> u32 {
    let ev = p.events[(id - 1) as usize];
    ev.delay_ms * p.listener_slowness.get(li).copied().unwrap_or(1)
}

fn uni_run<C, D, const I: usize>(p: &ObjParams)
where
    D: AsId,
    C: FullDuplexUniChannel<ItemType = u32, DerivedItemType = D> + Send + Sync + 'static,
{
    let rt = paused_runtime();
    let ledger: LedgerRef = Default::default();
    let p = p.clone();
    let verdict: Arc<Mutex<Option<CloseVerdict>>> = Default::default();
    let accepted: Arc<Mutex<Vec<u32>>> = Default::default();
    let (ledger2, verdict2, accepted2, p2) = (Arc::clone(&ledger), Arc::clone(&verdict), Arc::clone(&accepted), p.clone());
    rt.block_on(async move {
        let t0 = tokio::time::Instant::now();
        let uni = Uni::<u32, C, I, D>::new("sim");
        let l_close = Arc::clone(&ledger2);
        let on_close = move |_stats: Arc<dyn StreamExecutorStats + Send + Sync>| {
            let l_close = Arc::clone(&l_close);
            l_close.lock().unwrap().uni_close_invocations.push(now_ms(t0));
            async move {
                l_close.lock().unwrap().uni_close_calls.push(now_ms(t0));
            }
        };
        let l_err = Arc::clone(&ledger2);
        let timeout = Duration::from_millis(p2.timeout_ms as u64);
        let (l_items, pp) = (Arc::clone(&ledger2), p2.clone());
        let uni: Arc<Uni<u32, C, I, D>> = match p2.exec {
            ExecKind::FuturesFallible => uni.spawn_executors(
                p2.limit,
                timeout,
                move |stream| {
                    let (l_items, pp) = (Arc::clone(&l_items), pp.clone());
                    stream.map(move |item: D| {
                        let id = item.as_id();
                        let (l, pp) = (Arc::clone(&l_items), pp.clone());
                        async move {
                            let guard = FlightGuard::start(&l, id, t0);
                            let d = processing_delay(&pp, 0, id);
                            if d > 0 {
                                tokio::time::sleep(Duration::from_millis(d as u64)).await;
                            }
                            drop(item);
                            guard.finish();
                            if pp.events[(id - 1) as usize].fails {
                                Err::<u32, BoxErr>(Box::from("failed"))
                            } else {
                                Ok(id)
                            }
                        }
                    })
                },
                move |err| {
                    let l_err = Arc::clone(&l_err);
                    async move {
                        l_err.lock().unwrap().on_err_calls.push((err.to_string(), now_ms(t0)));
                    }
                },
                on_close,
            ),
            ExecKind::Futures => uni.spawn_futures_executors(
                p2.limit,
                timeout,
                move |stream| {
                    let (l_items, pp) = (Arc::clone(&l_items), pp.clone());
                    stream.map(move |item: D| {
                        let id = item.as_id();
                        let (l, pp) = (Arc::clone(&l_items), pp.clone());
                        async move {
                            let guard = FlightGuard::start(&l, id, t0);
                            let d = processing_delay(&pp, 0, id);
                            if d > 0 {
                                tokio::time::sleep(Duration::from_millis(d as u64)).await;
                            }
                            drop(item);
                            guard.finish();
                            id
                        }
                    })
                },
                on_close,
            ),
            ExecKind::Fallibles => uni.spawn_fallibles_executors(
                p2.limit,
                move |stream| {
                    let (l_items, pp) = (Arc::clone(&l_items), pp.clone());
                    stream.map(move |item: D| {
                        let id = item.as_id();
                        FlightGuard::start(&l_items, id, t0).finish();
                        if pp.events[(id - 1) as usize].fails {
                            Err::<u32, BoxErr>(Box::from("failed"))
                        } else {
                            Ok(id)
                        }
                    })
                },
                move |err| {
                    l_err.lock().unwrap().on_err_calls.push((err.to_string(), now_ms(t0)));
                },
                on_close,
            ),
            ExecKind::Plain => uni.spawn_non_futures_non_fallibles_executors(
                p2.limit,
                move |stream| {
                    let l_items = Arc::clone(&l_items);
                    stream.map(move |item: D| {
                        let id = item.as_id();
                        FlightGuard::start(&l_items, id, t0).finish();
                        id
                    })
                },
                on_close,
            ),
        };
        // the producer
        for (i, ev) in p2.events.iter().enumerate() {
            gap(ev.gap_ms).await;
            let id = i as u32 + 1;
            let mut tries = 0;
            loop {
                match uni.send(id) {
                    keen_retry::RetryResult::Ok { .. } => {
                        accepted2.lock().unwrap().push(id);
                        break;
                    }
                    _ => {
                        tries += 1;
                        if tries > 10_000 {
                            break;
                        }
                        tokio::time::sleep(Duration::from_millis(1)).await;
                    }
                }
            }
        }
        gap(p2.close_gap_ms).await;
        if let Some(ms) = p2.pre_cancel_ms {
            uni.channel.cancel_all_streams();
            gap(ms).await;
        }
        let answer = uni.close(Duration::ZERO).await;
        // ---- the instant close() returned (no await between the return and these reads)
        {
            let l = ledger2.lock().unwrap();
            let acc = accepted2.lock().unwrap();
            let done: Vec<u32> = l.finished.iter().map(|(i, _)| *i).chain(l.dropped_unfinished.iter().map(|(i, _)| *i)).collect();
            let unprocessed = acc.iter().filter(|id| !done.contains(id)).map(|id| (0usize, *id)).collect();
            *verdict2.lock().unwrap() = Some(CloseVerdict { unprocessed, running_streams: uni.channel.running_streams_count(), channel_open: uni.channel.is_channel_open(), pending: uni.channel.pending_items_count(), close_answer: answer });
        }
        tokio::time::sleep(Duration::from_secs(3600)).await;
        ledger2.lock().unwrap().notes.push(format!("finished_executors={}", uni.finished_executors_count.load(Relaxed)));
    });
    ctx::with_ctx(|c| c.sim_time_ns += 3_600_000_000_000);
    drop(rt);
    let l = ledger.lock().unwrap();
    let acc = accepted.lock().unwrap();
    let done: Vec<u32> = l.finished.iter().map(|(i, _)| *i).chain(l.dropped_unfinished.iter().map(|(i, _)| *i)).collect();
    let never: Vec<(usize, u32)> = acc.iter().filter(|id| !done.contains(id)).map(|id| (0usize, *id)).collect();
    let v = verdict.lock().unwrap().take();
    if let Some(v) = v.as_ref() {
        check_c06(&p, "uni_exec", v, &never);
    } else {
        ctx::report("C06", "close_never_returned", format!("uni_exec/{}/{}/{}/close_never_returned", p.kind.name(), p.exec.name(), limit_class(p.limit)), "close(ZERO) did not return within one hour of virtual time".into());
    }
    // each event processed at most once (a Uni delivers to exactly one stream)
    let mut seen = std::collections::BTreeMap::new();
    for (id, _) in l.started.iter() {
        *seen.entry(*id).or_insert(0u32) += 1;
    }
    if let Some((id, n)) = seen.iter().find(|(_, n)| **n > 1) {
        ctx::report("C06", "processed_twice", format!("uni_exec/{}/{}/{}/processed_twice", p.kind.name(), p.exec.name(), limit_class(p.limit)), format!("event {} entered the pipeline {} times", id, n));
    }
    // C12: the Uni's close callback: exactly once, after all MAX_STREAMS executors finished
    let key12 = |oracle: &str| format!("uni_exec/{}/{}/{}", p.kind.name(), p.exec.name(), oracle);
    if l.uni_close_invocations.len() != 1 {
        ctx::report("C12", "uni_close_callback_count", key12("uni_close_callback_count"), format!("the Uni's close callback was invoked {} times (MAX_STREAMS = {})", l.uni_close_invocations.len(), p.max_streams));
    } else {
        let last_item = l.finished.iter().map(|(_, t)| *t).chain(l.dropped_unfinished.iter().map(|(_, t)| *t)).max().unwrap_or(0);
        if l.uni_close_invocations[0] < last_item {
            ctx::report("C12", "uni_close_before_last_item", key12("uni_close_before_last_item"), format!("the Uni's close callback was invoked at {} us, the last item finished at {} us", l.uni_close_invocations[0], last_item));
        }
    }
    if l.uni_close_calls.len() != 1 {
        ctx::report("C12", "uni_close_callback_count", key12("uni_close_callback_count"), format!("the Uni's close callback ran {} times (MAX_STREAMS = {})", l.uni_close_calls.len(), p.max_streams));
    } else {
        let last_item = l.finished.iter().map(|(_, t)| *t).chain(l.dropped_unfinished.iter().map(|(_, t)| *t)).max().unwrap_or(0);
        if l.uni_close_calls[0] < last_item {
            ctx::report("C12", "uni_close_before_last_item", key12("uni_close_before_last_item"), format!("the Uni's close callback ran at {} us, the last item finished at {} us", l.uni_close_calls[0], last_item));
        }
    }
    if !l.notes.iter().any(|n| n == &format!("finished_executors={}", p.max_streams)) {
        ctx::report("C12", "finished_executors_count", key12("finished_executors_count"), format!("after close: {:?}, expected {}", l.notes, p.max_streams));
    }
}

fn multi_run<C, D, const I: usize>(p: &ObjParams)
where
    D: AsId,
    C: FullDuplexMultiChannel<ItemType = u32, DerivedItemType = D> + Send + Sync + 'static,
{
    let rt = paused_runtime();
    // one ledger per listener
    let ledgers: Vec<LedgerRef> = (0..p.listeners).map(|_| Default::default()).collect();
    let p = p.clone();
    let verdict: Arc<Mutex<Option<CloseVerdict>>> = Default::default();
    // (event id, listeners alive when it was accepted)
    let accepted: Arc<Mutex<Vec<(u32, Vec<usize>)>>> = Default::default();
    let cancelled_at: Arc<Mutex<Option<(usize, u64, bool, Vec<u32>)>>> = Default::default();
    let (ledgers2, verdict2, accepted2, cancelled2, p2) = (ledgers.clone(), Arc::clone(&verdict), Arc::clone(&accepted), Arc::clone(&cancelled_at), p.clone());
    rt.block_on(async move {
        let t0 = tokio::time::Instant::now();
        let multi = Arc::new(Multi::<u32, C, I, D>::new(chan::scratch_log_name("multi")));
        let timeout = Duration::from_millis(p2.timeout_ms as u64);
        for li in 0..p2.listeners {
            let name = format!("listener{}", li);
            let l_close = Arc::clone(&ledgers2[li]);
            let on_close = move |stats: Arc<dyn StreamExecutorStats + Send + Sync>| {
                let l_close = Arc::clone(&l_close);
                l_close.lock().unwrap().close_invocations.push((format!("{:?}", stats.executor_status().load(Relaxed)), now_ms(t0), stats.execution_finish_delta_nanos() >= stats.execution_start_delta_nanos()));
                async move {
                    let status = stats.executor_status().load(Relaxed);
                    l_close.lock().unwrap().close_calls.push((format!("{:?}", status), now_ms(t0)));
                    // a close callback may await: the executor must still be found ended afterwards
                    tokio::time::sleep(Duration::from_millis(3)).await;
                    l_close.lock().unwrap().notes.push(format!("late_status={:?}", stats.executor_status().load(Relaxed)));
                }
            };
            let l_err = Arc::clone(&ledgers2[li]);
            let (l_items, pp) = (Arc::clone(&ledgers2[li]), p2.clone());
            let r = match p2.exec {
                ExecKind::FuturesFallible => {
                    multi
                        .spawn_executor(
                            p2.limit,
                            timeout,
                            name,
                            move |stream| {
                                stream.map(move |item: D| {
                                    let id = item.as_id();
                                    let (l, pp) = (Arc::clone(&l_items), pp.clone());
                                    async move {
                                        let guard = FlightGuard::start(&l, id, t0);
                                        let d = processing_delay(&pp, li, id);
                                        if d > 0 {
                                            tokio::time::sleep(Duration::from_millis(d as u64)).await;
                                        }
                                        drop(item);
                                        guard.finish();
                                        if pp.events[(id - 1) as usize].fails {
                                            Err::<u32, BoxErr>(Box::from("failed"))
                                        } else {
                                            Ok(id)
                                        }
                                    }
                                })
                            },
                            move |err| {
                                let l_err = Arc::clone(&l_err);
                                async move {
                                    l_err.lock().unwrap().on_err_calls.push((err.to_string(), now_ms(t0)));
                                }
                            },
                            on_close,
                        )
                        .await
                }
                ExecKind::Futures => {
                    multi
                        .spawn_futures_executor(
                            p2.limit,
                            timeout,
                            name,
                            move |stream| {
                                stream.map(move |item: D| {
                                    let id = item.as_id();
                                    let (l, pp) = (Arc::clone(&l_items), pp.clone());
                                    async move {
                                        let guard = FlightGuard::start(&l, id, t0);
                                        let d = processing_delay(&pp, li, id);
                                        if d > 0 {
                                            tokio::time::sleep(Duration::from_millis(d as u64)).await;
                                        }
                                        drop(item);
                                        guard.finish();
                                        id
                                    }
                                })
                            },
                            on_close,
                        )
                        .await
                }
                ExecKind::Fallibles => {
                    multi
                        .spawn_fallibles_executor(
                            p2.limit,
                            name,
                            move |stream| {
                                stream.map(move |item: D| {
                                    let id = item.as_id();
                                    FlightGuard::start(&l_items, id, t0).finish();
                                    if pp.events[(id - 1) as usize].fails {
                                        Err::<u32, BoxErr>(Box::from("failed"))
                                    } else {
                                        Ok(id)
                                    }
                                })
                            },
                            move |err| {
                                l_err.lock().unwrap().on_err_calls.push((err.to_string(), now_ms(t0)));
                            },
                            on_close,
                        )
                        .await
                }
                ExecKind::Plain => {
                    multi
                        .spawn_non_futures_non_fallible_executor(
                            p2.limit,
                            name,
                            move |stream| {
                                stream.map(move |item: D| {
                                    let id = item.as_id();
                                    FlightGuard::start(&l_items, id, t0).finish();
                                    id
                                })
                            },
                            on_close,
                        )
                        .await
                }
            };
            if let Err(e) = r {
                ledgers2[li].lock().unwrap().notes.push(format!("spawn failed: {}", e));
            }
        }
        let mut alive: Vec<usize> = (0..p2.listeners).collect();
        for (i, ev) in p2.events.iter().enumerate() {
            gap(ev.gap_ms).await;
            let id = i as u32 + 1;
            let mut tries = 0;
            loop {
                match multi.send(id) {
                    keen_retry::RetryResult::Ok { .. } => {
                        accepted2.lock().unwrap().push((id, alive.clone()));
                        break;
                    }
                    _ => {
                        tries += 1;
                        if tries > 10_000 {
                            break;
                        }
                        tokio::time::sleep(Duration::from_millis(1)).await;
                    }
                }
            }
            if let Some((li, after)) = p2.cancel_one {
                if after == i && alive.contains(&li) {
                    let sent_before: Vec<u32> = accepted2.lock().unwrap().iter().map(|(id, _)| *id).collect();
                    let answer = multi.flush_and_cancel_executor(format!("listener{}", li), Duration::ZERO).await;
                    alive.retain(|x| *x != li);
                    *cancelled2.lock().unwrap() = Some((li, now_ms(t0), answer, sent_before));
                }
            }
        }
        gap(p2.close_gap_ms).await;
        if let Some(ms) = p2.pre_cancel_ms {
            multi.channel.cancel_all_streams();
            gap(ms).await;
        }
        let answer = multi.close(Duration::ZERO).await;
        {
            let acc = accepted2.lock().unwrap();
            let mut unprocessed = vec![];
            for li in 0..p2.listeners {
                let l = ledgers2[li].lock().unwrap();
                let done: Vec<u32> = l.finished.iter().map(|(i, _)| *i).chain(l.dropped_unfinished.iter().map(|(i, _)| *i)).collect();
                for (id, alive_then) in acc.iter() {
                    if alive_then.contains(&li) && alive.contains(&li) && !done.contains(id) {
                        unprocessed.push((li, *id));
                    }
                }
            }
            *verdict2.lock().unwrap() = Some(CloseVerdict { unprocessed, running_streams: multi.channel.running_streams_count(), channel_open: multi.channel.is_channel_open(), pending: multi.channel.pending_items_count(), close_answer: answer });
        }
        tokio::time::sleep(Duration::from_secs(3600)).await;
        drop(multi);
    });
    ctx::with_ctx(|c| c.sim_time_ns += 3_600_000_000_000);
    drop(rt);
    let acc = accepted.lock().unwrap();
    let cancelled = cancelled_at.lock().unwrap().clone();
    let mut never = vec![];
    for li in 0..p.listeners {
        let l = ledgers[li].lock().unwrap();
        let done: Vec<u32> = l.finished.iter().map(|(i, _)| *i).chain(l.dropped_unfinished.iter().map(|(i, _)| *i)).collect();
        for (id, alive_then) in acc.iter() {
            let was_cancelled = cancelled.as_ref().map(|c| c.0 == li).unwrap_or(false);
            // a listener cancelled on its own is entitled to what was sent before its cancellation
            let entitled = alive_then.contains(&li) && (!was_cancelled || cancelled.as_ref().map(|c| c.3.contains(id)).unwrap_or(false));
            if entitled && !done.contains(id) {
                never.push((li, *id));
            }
        }
        // exactly once per listener
        let mut seen = std::collections::BTreeMap::new();
        for (id, _) in l.started.iter() {
            *seen.entry(*id).or_insert(0u32) += 1;
        }
        if let Some((id, n)) = seen.iter().find(|(_, n)| **n > 1) {
            ctx::report("C06", "processed_twice", format!("multi_exec/{}/{}/{}/processed_twice", p.kind.name(), p.exec.name(), limit_class(p.limit)), format!("listener {}: event {} entered the pipeline {} times", li, id, n));
        }
        // C12: each executor's close callback exactly once, after its last item, status consistent
        let key12 = |oracle: &str| format!("multi_exec/{}/{}/{}", p.kind.name(), p.exec.name(), oracle);
        if l.close_calls.len() != 1 {
            ctx::report("C12", "close_callback_count", key12("close_callback_count"), format!("listener {}: close callback ran {} times", li, l.close_calls.len()));
        } else {
            let (status, at) = &l.close_calls[0];
            let last_item = l.finished.iter().map(|(_, t)| *t).chain(l.dropped_unfinished.iter().map(|(_, t)| *t)).max().unwrap_or(0);
            if *at < last_item {
                ctx::report("C12", "close_before_last_item", key12("close_before_last_item"), format!("listener {}: close callback at {} us, last item finished at {} us", li, at, last_item));
            }
            let was_cancelled = cancelled.as_ref().map(|c| c.0 == li).unwrap_or(false);
            let ok = status == "StreamEnded" || (status == "ProgrammaticallyEnded" && was_cancelled);
            if !ok {
                ctx::report("C12", "status_in_close_callback", key12("status_in_close_callback"), format!("listener {}: close callback found state {} (individually cancelled: {})", li, status, was_cancelled));
            }
        }
        {
            let was_cancelled = cancelled.as_ref().map(|c| c.0 == li).unwrap_or(false);
            for n in l.notes.iter().filter(|n| n.starts_with("late_status=")) {
                let status = &n["late_status=".len()..];
                if !(status == "StreamEnded" || (status == "ProgrammaticallyEnded" && was_cancelled)) {
                    ctx::report("C12", "status_left_the_ended_state", key12("status_left_the_ended_state"), format!("listener {}: 3 ms (virtual) into its close callback the executor is in state {} (individually cancelled: {})", li, status, was_cancelled));
                }
            }
        }
        if l.close_invocations.len() != 1 {
            ctx::report("C12", "close_callback_count", key12("close_callback_count"), format!("listener {}: close callback was invoked {} times", li, l.close_invocations.len()));
        } else {
            let (status, at, finish_ok) = &l.close_invocations[0];
            let last_item = l.finished.iter().map(|(_, t)| *t).chain(l.dropped_unfinished.iter().map(|(_, t)| *t)).max().unwrap_or(0);
            let was_cancelled = cancelled.as_ref().map(|c| c.0 == li).unwrap_or(false);
            let ok = status == "StreamEnded" || (status == "ProgrammaticallyEnded" && was_cancelled);
            if *at < last_item || !ok || !finish_ok {
                ctx::report("C12", "close_callback_invoked_early", key12("close_callback_invoked_early"), format!("listener {}: close callback invoked at {} us (last item finished at {} us), found state {} (individually cancelled: {}), finish time not before start time: {}", li, at, last_item, status, was_cancelled, finish_ok));
            }
        }
    }
    let v = verdict.lock().unwrap().take();
    if let Some(v) = v.as_ref() {
        check_c06(&p, "multi_exec", v, &never);
    } else {
        ctx::report("C06", "close_never_returned", format!("multi_exec/{}/{}/{}/close_never_returned", p.kind.name(), p.exec.name(), limit_class(p.limit)), "close(ZERO) did not return within one hour of virtual time".into());
    }
}

macro_rules! dispatch_uni {
    ($p:expr, $ms:literal, $i:ident) => {
        match $p.kind {
            Kind::UniMoveAtomic => uni_run::<ChannelUniMoveAtomic<u32, OBJ_BUFFER, $ms>, u32, $i>($p),
            Kind::UniMoveFullSync => uni_run::<ChannelUniMoveFullSync<u32, OBJ_BUFFER, $ms>, u32, $i>($p),
            Kind::UniMoveCrossbeam => uni_run::<ChannelUniMoveCrossbeam<u32, OBJ_BUFFER, $ms>, u32, $i>($p),
            Kind::UniZcAtomic => uni_run::<ChannelUniZeroCopyAtomic<u32, OBJ_BUFFER, $ms>, OgreUnique<u32, AllocatorAtomicArray<u32, OBJ_BUFFER>>, $i>($p),
            Kind::UniZcFullSync => uni_run::<ChannelUniZeroCopyFullSync<u32, OBJ_BUFFER, $ms>, OgreUnique<u32, AllocatorFullSyncArray<u32, OBJ_BUFFER>>, $i>($p),
            _ => unreachable!(),
        }
    };
}

macro_rules! dispatch_multi {
    ($p:expr, $i:ident) => {
        match $p.kind {
            Kind::MultiArcAtomic => multi_run::<ChannelMultiArcAtomic<u32, OBJ_BUFFER, 4>, Arc<u32>, $i>($p),
            Kind::MultiArcFullSync => multi_run::<ChannelMultiArcFullSync<u32, OBJ_BUFFER, 4>, Arc<u32>, $i>($p),
            Kind::MultiArcCrossbeam => multi_run::<ChannelMultiArcCrossbeam<u32, OBJ_BUFFER, 4>, Arc<u32>, $i>($p),
            Kind::MultiOgreAtomic => multi_run::<ChannelMultiOgreArcAtomic<u32, OBJ_BUFFER, 4>, OgreArc<u32, AllocatorAtomicArray<u32, OBJ_BUFFER>>, $i>($p),
            Kind::MultiOgreFullSync => multi_run::<ChannelMultiOgreArcFullSync<u32, OBJ_BUFFER, 4>, OgreArc<u32, AllocatorFullSyncArray<u32, OBJ_BUFFER>>, $i>($p),
            Kind::MultiMmapLog => multi_run::<ChannelMultiMmapLog<u32, 4>, &'static u32, $i>($p),
            _ => unreachable!(),
        }
    };
}

fn obj_run(p: &ObjParams) {
    if p.kind.is_uni() {
        match (p.max_streams, p.instruments) {
            (1, 0) => dispatch_uni!(p, 1, I_NONE),
            (1, _) => dispatch_uni!(p, 1, I_BOTH),
            (_, 0) => dispatch_uni!(p, 2, I_NONE),
            (_, _) => dispatch_uni!(p, 2, I_BOTH),
        }
    } else {
        match p.instruments {
            0 => dispatch_multi!(p, I_NONE),
            _ => dispatch_multi!(p, I_BOTH),
        }
    }
}

pub struct ObjExec {
    pub property: &'static str,
    pub multi: bool,
}

impl Scenario for ObjExec {
    type P = ObjParams;
    fn property(&self) -> &'static str {
        self.property
    }
    fn name(&self) -> &'static str {
        if self.multi {
            "multi_exec"
        } else {
            "uni_exec"
        }
    }
    fn engine(&self) -> &'static str {
        "D"
    }
    fn generate(&self, rng: &mut Rng, tier: Tier) -> ObjParams {
        let kind = if self.multi { *rng.pick(&crate::chan::MULTI_KINDS) } else { *rng.pick(&crate::chan::UNI_KINDS) };
        let exec = *rng.pick(&EXEC_KINDS);
        let timeout_ms = if exec.is_future() && rng.chance(1, 3) { 30 } else { 0 };
        let listeners = if self.multi { 1 + rng.below(3) as usize } else { 1 };
        // Arc-based Multi channels wait (really sleeping 500 ms) when a listener's buffer is full: stay below the buffer
        let max_events = if kind.is_arc_multi() || kind.is_ogre_multi() { OBJ_BUFFER as u64 - 1 } else if tier == Tier::Thorough { 14 } else { 10 };
        let n = rng.below(max_events + 1) as usize;
        let events = (0..n)
            .map(|_| WorkEvent {
                gap_ms: *rng.pick(&[0, 0, u32::MAX, 1, 3, 12]),
                delay_ms: if !exec.is_future() {
                    0
                } else if timeout_ms > 0 && rng.chance(1, 5) {
                    timeout_ms + 1 + rng.below(20) as u32
                } else {
                    rng.below(if timeout_ms > 0 { timeout_ms as u64 / 3 } else { 20 }) as u32
                },
                fails: exec.is_fallible() && rng.chance(1, 5),
            })
            .collect();
        ObjParams {
            sched: SchedSpec::draw(rng),
            kind,
            max_streams: if self.multi { 4 } else { 1 + rng.below(2) as usize },
            listeners,
            instruments: if rng.chance(1, 2) { 0 } else { 3 },
            exec,
            limit: 1 + rng.below(4) as u32,
            timeout_ms,
            events,
            close_gap_ms: *rng.pick(&[0, 0, u32::MAX, 1, 5, 40]),
            listener_slowness: (0..listeners).map(|_| 1 + rng.below(3) as u32).collect(),
            cancel_one: if self.multi && listeners > 1 && n > 0 && rng.chance(1, 3) { Some((rng.below(listeners as u64) as usize, rng.below(n as u64) as usize)) } else { None },
            pre_cancel_ms: if rng.chance(1, 5) { Some(*rng.pick(&[0, 0, u32::MAX, 1, 4])) } else { None },
        }
    }
    fn sched<'a>(&self, p: &'a ObjParams) -> &'a SchedSpec {
        &p.sched
    }
    fn with_sched(&self, p: &ObjParams, s: SchedSpec) -> ObjParams {
        let mut q = p.clone();
        q.sched = s;
        q
    }
    fn execute(&self, p: &ObjParams, trace: bool) -> RunOut {
        let p2 = p.clone();
        let (out, _) = run_passive(&p.sched, trace, move || obj_run(&p2));
        if p.kind == Kind::MultiMmapLog {
            let _ = std::fs::remove_file(chan::mmap_log_path(&chan::scratch_log_name("multi")));
        }
        out
    }
    fn shrink(&self, p: &ObjParams) -> Vec<ObjParams> {
        let mut out = vec![];
        for i in (0..p.events.len()).rev() {
            let mut q = p.clone();
            q.events.remove(i);
            if let Some((li, after)) = q.cancel_one {
                if q.events.is_empty() {
                    q.cancel_one = None;
                } else {
                    q.cancel_one = Some((li, after.min(q.events.len() - 1)));
                }
            }
            out.push(q);
        }
        for i in 0..p.events.len() {
            let e = p.events[i];
            if e.gap_ms != 0 {
                let mut q = p.clone();
                q.events[i].gap_ms = 0;
                out.push(q);
            }
            if e.fails {
                let mut q = p.clone();
                q.events[i].fails = false;
                out.push(q);
            }
            if e.delay_ms > 1 && (p.timeout_ms == 0 || e.delay_ms < p.timeout_ms) {
                let mut q = p.clone();
                q.events[i].delay_ms = 1;
                out.push(q);
            }
        }
        if p.cancel_one.is_some() {
            let mut q = p.clone();
            q.cancel_one = None;
            out.push(q);
        }
        if p.pre_cancel_ms.is_some() {
            let mut q = p.clone();
            q.pre_cancel_ms = None;
            out.push(q);
        }
        if p.listeners > 1 {
            let mut q = p.clone();
            q.listeners -= 1;
            q.listener_slowness.truncate(q.listeners);
            if let Some((li, _)) = q.cancel_one {
                if li >= q.listeners {
                    q.cancel_one = None;
                }
            }
            out.push(q);
        }
        if p.close_gap_ms != 0 {
            let mut q = p.clone();
            q.close_gap_ms = 0;
            out.push(q);
        }
        if p.limit > 2 {
            let mut q = p.clone();
            q.limit = 2;
            out.push(q);
        }
        if p.timeout_ms > 0 && p.events.iter().all(|e| e.delay_ms < p.timeout_ms) {
            let mut q = p.clone();
            q.timeout_ms = 0;
            out.push(q);
        }
        out
    }
    fn size(&self, p: &ObjParams) -> u64 {
        p.events.len() as u64 * 3 + p.listeners as u64 * 2 + p.limit as u64
    }
    fn nontrivial(&self, p: &ObjParams, _out: &RunOut) -> bool {
        !p.events.is_empty()
    }
    fn distinct_key(&self, p: &ObjParams, _out: &RunOut) -> u64 {
        let mut q = p.clone();
        q.sched = SchedSpec { policy: crate::ctx::Policy::Uniform, seed: 0, script: vec![], weak_cas: 0, stall: 0, starvation: 0, step_cap: 0, op_step_bound: 0, origin: 0, metric_origin: 0 };
        let mut h = 0xcbf29ce484222325u64;
        for b in serde_json::to_string(&q).unwrap_or_default().bytes() {
            h = (h ^ b as u64).wrapping_mul(0x100000001b3);
        }
        h
    }
    fn components(&self) -> serde_json::Value {
        serde_json::json!({"real": ["reactive-mutiny Uni / Multi / StreamExecutor / channels (/repo working tree)", "tokio current-thread runtime with paused (virtual) clock", "futures", "the log channel's real file + mmap under /tmp"], "stub": []})
    }
    fn assumptions(&self) -> Vec<String> {
        vec![
            "single current-thread tokio runtime under virtual time (all interleavings at await points); multi-threaded runtimes are not simulated".into(),
            "an item cancelled by the futures timeout counts as fully processed".into(),
            "Arc / OgreArc Multi channels are driven with fewer events than BUFFER_SIZE (they wait or reject by design when full)".into(),
        ]
    }
}
