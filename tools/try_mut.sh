#!/bin/sh
# tools/try_mut.sh <patch.diff> <budget_s> <Cxx> [<Cxx> ...]  -- apply a seeded change to /repo, run the listed quick checks, undo it
PATCH="$1"; BUDGET="$2"; shift 2
cd /verif || exit 2
git -C /repo diff --quiet || { echo "/repo is dirty"; exit 2; }
git -C /repo apply "$PATCH" || { echo "patch does not apply"; exit 2; }
for p in "$@"; do
  echo "--- $p with $(basename $(dirname $PATCH))/$(basename $PATCH)"
  VERIF_BUDGET_S=$BUDGET ./check $p quick 2>&1 | grep -v "^KNOWN-FINDING" | cut -c1-600 | head -20
  
done
git -C /repo checkout -- .
git -C /verif checkout -- evidence 2>/dev/null
