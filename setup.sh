#!/bin/sh
# Offline build of the simulator against /repo's current working tree.
set -e
cd "$(dirname "$0")/sim"
export CARGO_NET_OFFLINE=true
cargo build --release --offline 2>&1 | tail -3
