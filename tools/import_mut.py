#!/usr/bin/env python3
"""tools/import_mut.py <Cxx> <n> <checks_run text> -- copies a confirmed seeded change from its scratch worktree into /verif/seeded/<Cxx>-<n>/"""
import json, os, shutil, sys, re
P, N = sys.argv[1], sys.argv[2]
checks_run = sys.argv[3] if len(sys.argv) > 3 else ""
src = f'/tmp/mut/{P}/_out'
dst = f'/verif/seeded/{P}-{N}'
os.makedirs(dst, exist_ok=True)
shutil.copy(f'{src}/patch{N}.diff', f'{dst}/patch.diff')
shutil.copy(f'{src}/demo{N}.rs', f'{dst}/demo.rs')
confirm = json.load(open(f'{src}/confirm{N}.json'))
notes = open(f'{src}/notes.md').read()
# the section of the notes about this mutation
parts = re.split(r'\n(?=#+ *Mutation)', notes)
sec = next((s for s in parts if re.match(rf'#+ *Mutation *{N}\b', s)), notes)
needs = ''
m = re.search(r'(?is)(what it needs.*?|needs( in order)? to manifest.*?)[:\n](.{0,700})', sec)
if m: needs = ' '.join(m.group(3).split())[:600]
meta = {
  "property": P, "seeded_change": f"{P}-{N}", "breaks": P,
  "needs_to_manifest": needs,
  "confirmed": {"how": "tools/confirm_mut.sh in the scratch worktree /tmp/mut/%s: demo passes without the change, fails with it; `cargo test --offline --no-fail-fast` with the change shows only the baseline failures (timing-flaky multi::tests::undegradable_latencies / async_elements re-run alone)" % P, **confirm},
  "checks_run": checks_run,
  "author_notes_excerpt": sec[:3500],
}
json.dump(meta, open(f'{dst}/meta.json', 'w'), indent=1)
print('imported', dst)
