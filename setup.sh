#!/bin/sh
# Offline build of the simulator against /repo's current working tree (both profiles: release, and the
# overflow-checked twin that C08/C15 run as a child process).
set -e
cd "$(dirname "$0")/sim"
export CARGO_NET_OFFLINE=true
cargo build --release --offline 2>&1 | tail -3
cargo build --profile checked --offline 2>&1 | tail -3
