//! Scenario families over the stand-alone containers of `ogre_std`:
//!   `ring_lin`  -- the two raw ring buffers (C02), the non-blocking queues and stacks (C18): linearizability;
//!   `alloc_conc` -- the bounded pool allocator (C13): ownership table.

use crate::ctx::{self, harness_point, SchedSpec};
use crate::engine_t::Body;
use crate::framework::{Scenario, Tier};
use crate::harness::HLock;
use crate::lin::{self, Discipline, LinOp, Res};
use crate::rng::Rng;
use reactive_mutiny::ogre_std::ogre_alloc::ogre_array_pool_allocator::OgreArrayPoolAllocator;
use reactive_mutiny::ogre_std::ogre_alloc::BoundedOgreAllocator;
use reactive_mutiny::ogre_std::ogre_queues::atomic::atomic_move::AtomicMove;
use reactive_mutiny::ogre_std::ogre_queues::full_sync::full_sync_move::FullSyncMove;
use reactive_mutiny::ogre_std::ogre_queues::meta_container::MoveContainer;
use reactive_mutiny::ogre_std::ogre_queues::meta_publisher::MovePublisher;
use reactive_mutiny::ogre_std::ogre_queues::meta_subscriber::MoveSubscriber;
use reactive_mutiny::ogre_std::ogre_queues::OgreQueue;
use reactive_mutiny::ogre_std::ogre_stacks::OgreStack;
use serde::{Deserialize, Serialize};
use std::collections::BTreeMap;
use std::sync::Arc;

#[derive(Clone, Copy, Debug, PartialEq, Eq, Serialize, Deserialize)]
pub enum ContKind {
    RingAtomic,
    RingFullSync,
    QueueAtomic,
    QueueFullSync,
    StackAtomicFlag,
    StackParkingLot,
}

impl ContKind {
    pub fn name(self) -> &'static str {
        match self {
            ContKind::RingAtomic => "ring.atomic_move",
            ContKind::RingFullSync => "ring.full_sync_move",
            ContKind::QueueAtomic => "queue.atomic.non_blocking",
            ContKind::QueueFullSync => "queue.full_sync.non_blocking",
            ContKind::StackAtomicFlag => "stack.atomic_flag",
            ContKind::StackParkingLot => "stack.parking_lot",
        }
    }
    pub fn discipline(self) -> Discipline {
        match self {
            ContKind::StackAtomicFlag | ContKind::StackParkingLot => Discipline::Lifo,
            _ => Discipline::Fifo,
        }
    }
}

pub trait Cont: Send + Sync {
    /// `via_setter`: use the closure-based publishing API where the container has one
    fn push(&self, v: u32, via_setter: bool) -> bool;
    fn pop(&self) -> Option<u32>;
    fn len(&self) -> usize;
}

struct RingA<const N: usize>(AtomicMove<u32, N>);
impl<const N: usize> Cont for RingA<N> {
    fn push(&self, v: u32, via_setter: bool) -> bool {
        if via_setter {
            self.0.publish(|slot| *slot = v, || false, |_| {}).is_none()
        } else {
            self.0.publish_movable(v).0.is_some()
        }
    }
    fn pop(&self) -> Option<u32> {
        self.0.consume_movable()
    }
    fn len(&self) -> usize {
        self.0.available_elements_count()
    }
}
struct RingF<const N: usize>(FullSyncMove<u32, N>);
impl<const N: usize> Cont for RingF<N> {
    fn push(&self, v: u32, via_setter: bool) -> bool {
        if via_setter {
            self.0.publish(|slot| *slot = v, || false, |_| {}).is_none()
        } else {
            self.0.publish_movable(v).0.is_some()
        }
    }
    fn pop(&self) -> Option<u32> {
        self.0.consume_movable()
    }
    fn len(&self) -> usize {
        self.0.available_elements_count()
    }
}
struct QueueA<const N: usize>(reactive_mutiny::ogre_std::ogre_queues::atomic::NonBlockingQueue<u32, N, 0>);
impl<const N: usize> Cont for QueueA<N> {
    fn push(&self, v: u32, _via_setter: bool) -> bool {
        self.0.enqueue(v).is_none()
    }
    fn pop(&self) -> Option<u32> {
        self.0.dequeue()
    }
    fn len(&self) -> usize {
        self.0.len()
    }
}
struct QueueF<const N: usize>(reactive_mutiny::ogre_std::ogre_queues::full_sync::NonBlockingQueue<u32, N, 0>);
impl<const N: usize> Cont for QueueF<N> {
    fn push(&self, v: u32, _via_setter: bool) -> bool {
        self.0.enqueue(v).is_none()
    }
    fn pop(&self) -> Option<u32> {
        self.0.dequeue()
    }
    fn len(&self) -> usize {
        self.0.len()
    }
}
struct StackA<const N: usize>(reactive_mutiny::ogre_std::ogre_stacks::non_blocking_atomic_stack::Stack<u32, N, false, false>);
impl<const N: usize> Cont for StackA<N> {
    fn push(&self, v: u32, _via_setter: bool) -> bool {
        self.0.push(v)
    }
    fn pop(&self) -> Option<u32> {
        self.0.pop()
    }
    fn len(&self) -> usize {
        self.0.len()
    }
}
struct StackP<const N: usize>(reactive_mutiny::ogre_std::ogre_stacks::non_blocking_parking_lot_stack::Stack<u32, N, false, false>);
impl<const N: usize> Cont for StackP<N> {
    fn push(&self, v: u32, _via_setter: bool) -> bool {
        self.0.push(v)
    }
    fn pop(&self) -> Option<u32> {
        self.0.pop()
    }
    fn len(&self) -> usize {
        self.0.len()
    }
}
// the stacks hold `UnsafeCell`-free plain fields mutated through `&self` casts; they are used from several threads by design
unsafe impl<const N: usize> Send for StackA<N> {}
unsafe impl<const N: usize> Sync for StackA<N> {}
unsafe impl<const N: usize> Send for StackP<N> {}
unsafe impl<const N: usize> Sync for StackP<N> {}

macro_rules! by_capacity {
    ($cap:expr, $mk:ident) => {
        match $cap {
            2 => $mk!(2),
            4 => $mk!(4),
            8 => $mk!(8),
            other => panic!("capacity {} is not instantiated", other),
        }
    };
}

pub fn make_cont(kind: ContKind, capacity: usize) -> Arc<dyn Cont> {
    match kind {
        ContKind::RingAtomic => {
            macro_rules! mk { ($n:literal) => { Arc::new(RingA::<$n>(AtomicMove::new())) as Arc<dyn Cont> }; }
            by_capacity!(capacity, mk)
        }
        ContKind::RingFullSync => {
            macro_rules! mk { ($n:literal) => { Arc::new(RingF::<$n>(FullSyncMove::new())) as Arc<dyn Cont> }; }
            by_capacity!(capacity, mk)
        }
        ContKind::QueueAtomic => {
            macro_rules! mk { ($n:literal) => { Arc::new(QueueA::<$n>(OgreQueue::new("sim"))) as Arc<dyn Cont> }; }
            by_capacity!(capacity, mk)
        }
        ContKind::QueueFullSync => {
            macro_rules! mk { ($n:literal) => { Arc::new(QueueF::<$n>(OgreQueue::new("sim"))) as Arc<dyn Cont> }; }
            by_capacity!(capacity, mk)
        }
        ContKind::StackAtomicFlag => {
            macro_rules! mk { ($n:literal) => { Arc::new(StackA::<$n>(OgreStack::new("sim".to_string()))) as Arc<dyn Cont> }; }
            by_capacity!(capacity, mk)
        }
        ContKind::StackParkingLot => {
            macro_rules! mk { ($n:literal) => { Arc::new(StackP::<$n>(OgreStack::new("sim".to_string()))) as Arc<dyn Cont> }; }
            by_capacity!(capacity, mk)
        }
    }
}

#[derive(Clone, Copy, Debug, PartialEq, Eq, Serialize, Deserialize)]
pub enum COp {
    Push,
    PushWith,
    Pop,
}

#[derive(Clone, Debug, Serialize, Deserialize)]
pub struct ContParams {
    pub sched: SchedSpec,
    pub kind: ContKind,
    pub capacity: usize,
    pub prefill: u32,
    pub threads: Vec<Vec<COp>>,
}

fn cont_body(p: &ContParams, property: &'static str) {
    let cont = make_cont(p.kind, p.capacity);
    let ops: Arc<HLock<Vec<LinOp>>> = Arc::new(HLock::new(vec![]));
    for i in 0..p.prefill {
        let v = 0x7F00 | (i + 1);
        let inv = ctx::stamp();
        let ok = cont.push(v, false);
        let ret = ctx::stamp();
        ops.lock().unwrap().push(LinOp { inv, ret, res: if ok { Res::PushOk } else { Res::PushFull }, value: v, thread: 0 });
    }
    let mut handles = vec![];
    for (t, thread_ops) in p.threads.iter().enumerate() {
        let (cont, ops, thread_ops) = (Arc::clone(&cont), Arc::clone(&ops), thread_ops.clone());
        handles.push(shuttle::thread::spawn(move || {
            for (seq, op) in thread_ops.iter().enumerate() {
                let v = (((t + 1) as u32) << 8) | (seq as u32 + 1);
                let inv = ctx::stamp();
                let rec = match op {
                    COp::Push | COp::PushWith => {
                        ctx::op_mark("push");
                        let ok = cont.push(v, *op == COp::PushWith);
                        ctx::op_mark("");
                        LinOp { inv, ret: ctx::stamp(), res: if ok { Res::PushOk } else { Res::PushFull }, value: v, thread: t + 1 }
                    }
                    COp::Pop => {
                        ctx::op_mark("pop");
                        let got = cont.pop();
                        ctx::op_mark("");
                        LinOp { inv, ret: ctx::stamp(), res: if got.is_some() { Res::PopSome } else { Res::PopEmpty }, value: got.unwrap_or(0), thread: t + 1 }
                    }
                };
                ctx::trace(|| format!("thread {} {:?} -> {:?}({:#x})", t + 1, op, rec.res, rec.value));
                ops.lock().unwrap().push(rec);
                harness_point();
                if ctx::aborted() {
                    break;
                }
            }
        }));
    }
    for h in handles {
        let _ = h.join();
    }
    if ctx::aborted() {
        return;
    }
    // drain what is left (sequentially) so that nothing lost can hide inside the container
    let reported_len = cont.len();
    let mut drained = 0usize;
    loop {
        let inv = ctx::stamp();
        let got = cont.pop();
        let ret = ctx::stamp();
        ops.lock().unwrap().push(LinOp { inv, ret, res: if got.is_some() { Res::PopSome } else { Res::PopEmpty }, value: got.unwrap_or(0), thread: 0 });
        if got.is_none() {
            break;
        }
        drained += 1;
        if drained > 64 {
            break;
        }
    }
    let history = ops.lock().unwrap().clone();
    let key = |oracle: &str| format!("ring_lin/{}/{}", p.kind.name(), oracle);
    if reported_len != drained {
        ctx::report(property, "length_at_quiescence", key("length_at_quiescence"), format!("at quiescence the container reported {} elements but {} could be taken out", reported_len, drained));
    }
    let mut freed_at = BTreeMap::new();
    for o in history.iter().filter(|o| o.res == Res::PopSome) {
        freed_at.insert(o.value, o.ret);
    }
    let popper_threads = p.threads.iter().filter(|t| t.contains(&COp::Pop)).count();
    match lin::check(&history, p.kind.discipline(), p.capacity, &freed_at, &[]) {
        Ok(states) => {
            ctx::with_ctx(|c| {
                *c.probes.entry("harness.lin.histories_checked").or_insert(0) += 1;
                *c.probes.entry("harness.lin.search_states").or_insert(0) += states;
            });
        }
        Err(e) => ctx::report(property, e.oracle, format!("{}/{}", key(e.oracle), if popper_threads >= 2 { "poppers2+" } else { "poppers1" }), e.detail),
    }
    // everything pushed and not popped concurrently must have come out in the drain (covered by the linearizability of
    // the final PopEmpty), and nothing may be lost:
    let pushed: Vec<u32> = history.iter().filter(|o| o.res == Res::PushOk).map(|o| o.value).collect();
    for v in pushed {
        if !history.iter().any(|o| o.res == Res::PopSome && o.value == v) {
            ctx::report(property, "lost", key("lost"), format!("value {:#x} was accepted and never came out again", v));
        }
    }
}

fn draw_cont_params(rng: &mut Rng, tier: Tier, kinds: &[ContKind]) -> ContParams {
    let kind = *rng.pick(kinds);
    let capacity = *rng.pick(&[2usize, 4, 8]);
    let n_threads = 2 + rng.below(3) as usize;
    let max_ops = if tier == Tier::Thorough { 5 } else { 4 };
    let mut threads = vec![];
    let flavour = rng.below(4);
    for t in 0..n_threads {
        let n = 1 + rng.below(max_ops) as usize;
        let mut ops = vec![];
        for _ in 0..n {
            let push_bias = match flavour {
                0 => 50,
                1 => 75, // bursts that hit "full"
                2 => 25, // bursts that hit "empty"
                _ => {
                    if t % 2 == 0 {
                        90
                    } else {
                        10
                    }
                }
            };
            ops.push(if rng.below(100) < push_bias { if rng.chance(1, 3) { COp::PushWith } else { COp::Push } } else { COp::Pop });
        }
        threads.push(ops);
    }
    let mut sched = SchedSpec::draw(rng);
    if rng.chance(1, 4) {
        sched.origin = u32::MAX - rng.below(3 * capacity as u64 + 2) as u32;
    }
    ContParams { sched, kind, capacity, prefill: if rng.chance(1, 2) { 0 } else { rng.below(capacity as u64 + 1) as u32 }, threads }
}

fn shrink_cont(p: &ContParams) -> Vec<ContParams> {
    let mut out = vec![];
    if p.threads.len() > 1 {
        for i in 0..p.threads.len() {
            let mut q = p.clone();
            q.threads.remove(i);
            out.push(q);
        }
    }
    for i in 0..p.threads.len() {
        if p.threads[i].len() > 1 {
            for j in (0..p.threads[i].len()).rev() {
                let mut q = p.clone();
                q.threads[i].remove(j);
                out.push(q);
            }
        }
        for j in 0..p.threads[i].len() {
            if p.threads[i][j] == COp::PushWith {
                let mut q = p.clone();
                q.threads[i][j] = COp::Push;
                out.push(q);
            }
        }
    }
    if p.prefill > 0 {
        let mut q = p.clone();
        q.prefill -= 1;
        out.push(q);
    }
    if p.sched.weak_cas > 0 || p.sched.stall > 0 {
        let mut q = p.clone();
        q.sched.weak_cas = 0;
        q.sched.stall = 0;
        out.push(q);
    }
    if p.sched.origin != 0 {
        let mut q = p.clone();
        q.sched.origin = 0;
        out.push(q);
    }
    if p.capacity > 2 {
        let mut q = p.clone();
        q.capacity /= 2;
        q.prefill = q.prefill.min(q.capacity as u32);
        out.push(q);
    }
    out
}

pub struct RingLin {
    pub property: &'static str,
    pub kinds: &'static [ContKind],
}

pub const RINGS: [ContKind; 2] = [ContKind::RingAtomic, ContKind::RingFullSync];
pub const STANDALONE: [ContKind; 4] = [ContKind::QueueAtomic, ContKind::QueueFullSync, ContKind::StackAtomicFlag, ContKind::StackParkingLot];

impl Scenario for RingLin {
    type P = ContParams;
    fn property(&self) -> &'static str {
        self.property
    }
    fn name(&self) -> &'static str {
        "ring_lin"
    }
    fn engine(&self) -> &'static str {
        "T"
    }
    fn generate(&self, rng: &mut Rng, tier: Tier) -> ContParams {
        draw_cont_params(rng, tier, self.kinds)
    }
    fn sched<'a>(&self, p: &'a ContParams) -> &'a SchedSpec {
        &p.sched
    }
    fn with_sched(&self, p: &ContParams, s: SchedSpec) -> ContParams {
        let mut q = p.clone();
        q.sched = s;
        q
    }
    fn body(&self, p: &ContParams) -> Option<Body> {
        let p2 = p.clone();
        let property = self.property;
        Some(Arc::new(move || cont_body(&p2, property)))
    }
    fn shrink(&self, p: &ContParams) -> Vec<ContParams> {
        shrink_cont(p)
    }
    fn size(&self, p: &ContParams) -> u64 {
        p.threads.iter().map(|t| t.len() as u64).sum::<u64>() * 4 + p.prefill as u64 + p.capacity as u64
    }
    fn components(&self) -> serde_json::Value {
        serde_json::json!({"real": ["reactive-mutiny ogre_std containers (/repo working tree, feature verif)"], "stub": ["parking_lot::RawMutex inside the parking-lot stack is replaced by a spin flag under feature verif so that the code around it interleaves"]})
    }
    fn assumptions(&self) -> Vec<String> {
        vec![
            "sequential consistency at the instrumented atomics; plain shared accesses interleave at the instrumented yield points".into(),
            "'full' answers are judged by the interval rule (a slot counts as taken from the invocation of the insertion that took it until the return of the removal that freed it; insertions in flight count)".into(),
            "the 'long free-running multi-core runs' part of the quantifier is runtime monitoring, not simulation: not covered".into(),
        ]
    }
}

// =============================================================================================================
// C13: the pool allocator
// =============================================================================================================

pub trait AllocDyn: Send + Sync {
    fn alloc(&self, with_setter: bool, mark: u64) -> Option<u32>;
    fn dealloc(&self, id: u32, by_ref: bool);
    fn read(&self, id: u32) -> u64;
    fn write(&self, id: u32, v: u64);
    fn id_ref_bijection(&self) -> Result<(), String>;
}

/// What the pool holds: the owner's mark, with a destructor that takes time (a scheduling point in the middle): a slot that is
/// handed to a new owner while its deallocation is still destroying the previous content shows as a mark that changes
/// under the destructor's feet.
#[derive(Debug)]
pub struct DropCell(pub u64);
impl Drop for DropCell {
    fn drop(&mut self) {
        let before = unsafe { std::ptr::read_volatile(&self.0) };
        crate::ctx::harness_point();
        let after = unsafe { std::ptr::read_volatile(&self.0) };
        if before != after {
            ctx::report(
                "C13",
                "slot_handed_out_during_its_deallocation",
                "alloc_conc/slot_handed_out_during_its_deallocation".into(),
                format!("while a deallocation was destroying the content of a slot (owner mark {:#x}), another allocation was handed the same slot and wrote {:#x} into it: two owners", before, after),
            );
        }
    }
}

struct AllocW<A: BoundedOgreAllocator<DropCell>, const N: usize>(A);
impl<A: BoundedOgreAllocator<DropCell> + Send + Sync, const N: usize> AllocDyn for AllocW<A, N> {
    fn alloc(&self, with_setter: bool, mark: u64) -> Option<u32> {
        if with_setter {
            self.0.alloc_with(|slot| unsafe { std::ptr::write(slot, DropCell(mark)) }).map(|(_, id)| id)
        } else {
            self.0.alloc_ref().map(|(slot, id)| {
                unsafe { std::ptr::write(slot, DropCell(mark)) };
                id
            })
        }
    }
    fn dealloc(&self, id: u32, by_ref: bool) {
        if by_ref {
            let r = self.0.ref_from_id(id);
            self.0.dealloc_ref(r)
        } else {
            self.0.dealloc_id(id)
        }
    }
    fn read(&self, id: u32) -> u64 {
        self.0.ref_from_id(id).0
    }
    fn write(&self, id: u32, v: u64) {
        self.0.ref_from_id(id).0 = v;
    }
    fn id_ref_bijection(&self) -> Result<(), String> {
        let mut addrs = vec![];
        for id in 0..N as u32 {
            let r = self.0.ref_from_id(id);
            let back = self.0.id_from_ref(r);
            if back != id {
                return Err(format!("id_from_ref(ref_from_id({})) == {}", id, back));
            }
            addrs.push(r as *const DropCell as usize);
        }
        addrs.sort_unstable();
        addrs.dedup();
        if addrs.len() != N {
            return Err("two ids map to the same reference".into());
        }
        Ok(())
    }
}

pub fn make_alloc(atomic: bool, pool: usize) -> Arc<dyn AllocDyn> {
    if atomic {
        macro_rules! mk { ($n:literal) => { Arc::new(AllocW::<OgreArrayPoolAllocator<DropCell, AtomicMove<u32, $n>, $n>, $n>(BoundedOgreAllocator::new())) as Arc<dyn AllocDyn> }; }
        by_capacity!(pool, mk)
    } else {
        macro_rules! mk { ($n:literal) => { Arc::new(AllocW::<OgreArrayPoolAllocator<DropCell, FullSyncMove<u32, $n>, $n>, $n>(BoundedOgreAllocator::new())) as Arc<dyn AllocDyn> }; }
        by_capacity!(pool, mk)
    }
}

#[derive(Clone, Copy, Debug, PartialEq, Eq, Serialize, Deserialize)]
pub enum AOp {
    Alloc,
    AllocWith,
    /// deallocates the oldest slot this thread owns (no-op if none)
    DeallocId,
    DeallocRef,
}

#[derive(Clone, Debug, Serialize, Deserialize)]
pub struct AllocParams {
    pub sched: SchedSpec,
    pub atomic_free_list: bool,
    pub pool: usize,
    /// slots taken (and kept to the end) before the threads start
    pub pre_taken: u32,
    /// exhaust-and-refill cycles performed sequentially before the threads start
    pub warm_cycles: u32,
    pub threads: Vec<Vec<AOp>>,
}

#[derive(Default)]
struct AllocShared {
    /// id -> owner mark
    owned: BTreeMap<u32, u64>,
    /// (inv, ret) of every allocation attempt; Some(id) with the stamp its slot was surely free again
    attempts: Vec<(u64, u64, Option<u32>, usize)>,
    freed: Vec<(u32, u64, u64)>,
}

fn alloc_body(p: &AllocParams) {
    let name = if p.atomic_free_list { "alloc.atomic" } else { "alloc.full_sync" };
    let key = |oracle: &str| format!("alloc_conc/{}/{}", name, oracle);
    let a = make_alloc(p.atomic_free_list, p.pool);
    if let Err(e) = a.id_ref_bijection() {
        ctx::report("C13", "id_ref_bijection", key("id_ref_bijection"), e);
    }
    // exhaust-and-refill cycles (also moves the free list's sequence counters forward)
    for cycle in 0..p.warm_cycles {
        let mut got = vec![];
        while let Some(id) = a.alloc(false, 7) {
            if got.contains(&id) {
                ctx::report("C13", "double_allocation", key("double_allocation"), format!("sequential exhaust cycle {}: id {} handed out twice", cycle, id));
                return;
            }
            got.push(id);
            if got.len() > p.pool {
                break;
            }
        }
        if got.len() != p.pool {
            ctx::report("C13", "capacity", key("capacity"), format!("sequential exhaust cycle {}: {} allocations succeeded on a free pool of {}", cycle, got.len(), p.pool));
            return;
        }
        for (i, id) in got.iter().enumerate() {
            a.dealloc(*id, i % 2 == 0);
        }
    }
    let shared = Arc::new(HLock::new(AllocShared::default()));
    let mut pre = vec![];
    for i in 0..p.pre_taken {
        if let Some(id) = a.alloc(false, 0xAA00 + i as u64) {
            shared.lock().unwrap().owned.insert(id, 0xAA00 + i as u64);
            pre.push(id);
        }
    }
    let mut handles = vec![];
    for (t, ops) in p.threads.iter().enumerate() {
        let (a, shared, ops) = (Arc::clone(&a), Arc::clone(&shared), ops.clone());
        let pool = p.pool;
        let keyt = key("");
        handles.push(shuttle::thread::spawn(move || {
            let mut mine: Vec<(u32, u64)> = vec![];
            for (seq, op) in ops.iter().enumerate() {
                let mark = (((t + 1) as u64) << 32) | (seq as u64 + 1);
                match op {
                    AOp::Alloc | AOp::AllocWith => {
                        let inv = ctx::stamp();
                        ctx::op_mark("alloc");
                        let got = a.alloc(*op == AOp::AllocWith, mark);
                        ctx::op_mark("");
                        let ret = ctx::stamp();
                        ctx::trace(|| format!("thread {} alloc -> {:?}", t + 1, got));
                        let mut sh = shared.lock().unwrap();
                        sh.attempts.push((inv, ret, got, t + 1));
                        if let Some(id) = got {
                            if id as usize >= pool {
                                ctx::report("C13", "id_out_of_range", format!("{}id_out_of_range", keyt), format!("allocation returned id {} in a pool of {}", id, pool));
                            } else if let Some(other) = sh.owned.get(&id) {
                                ctx::report("C13", "double_allocation", format!("{}double_allocation", keyt), format!("thread {} was handed slot {} while owner {:#x} still holds it", t + 1, id, other));
                            }
                            sh.owned.insert(id, mark);
                            mine.push((id, mark));
                        }
                    }
                    AOp::DeallocId | AOp::DeallocRef => {
                        if mine.is_empty() {
                            continue;
                        }
                        let (id, mark) = mine.remove(0);
                        // the owner's content must be intact (nobody else was given the slot)
                        let content = a.read(id);
                        if content != mark {
                            ctx::report("C13", "slot_overwritten", format!("{}slot_overwritten", keyt), format!("slot {} owned by {:#x} contains {:#x}", id, mark, content));
                        }
                        shared.lock().unwrap().owned.remove(&id);
                        let inv = ctx::stamp();
                        ctx::op_mark("dealloc");
                        a.dealloc(id, *op == AOp::DeallocRef);
                        ctx::op_mark("");
                        let ret = ctx::stamp();
                        ctx::trace(|| format!("thread {} dealloc {}", t + 1, id));
                        shared.lock().unwrap().freed.push((id, inv, ret));
                    }
                }
                harness_point();
                if ctx::aborted() {
                    return;
                }
            }
            // give everything back
            for (id, mark) in mine {
                let content = a.read(id);
                if content != mark {
                    ctx::report("C13", "slot_overwritten", format!("{}slot_overwritten", keyt), format!("slot {} owned by {:#x} contains {:#x}", id, mark, content));
                }
                shared.lock().unwrap().owned.remove(&id);
                let inv = ctx::stamp();
                a.dealloc(id, false);
                let ret = ctx::stamp();
                shared.lock().unwrap().freed.push((id, inv, ret));
            }
        }));
    }
    for h in handles {
        let _ = h.join();
    }
    if ctx::aborted() {
        return;
    }
    // "allocation fails only if all slots were outstanding at some instant of the call"
    {
        let sh = shared.lock().unwrap();
        // occupancy intervals: pre-taken slots forever; each successful allocation from its invocation to the return of
        // the matching deallocation; each failed attempt during its own call (it transiently takes a ticket)
        let mut intervals: Vec<(u64, u64, usize)> = pre.iter().map(|_| (0u64, u64::MAX, usize::MAX)).collect();
        let mut frees_by_id: BTreeMap<u32, Vec<(u64, u64)>> = BTreeMap::new();
        for (id, inv, ret) in sh.freed.iter() {
            frees_by_id.entry(*id).or_default().push((*inv, *ret));
        }
        for (i, (inv, ret, got, _)) in sh.attempts.iter().enumerate() {
            match got {
                Some(id) => {
                    let end = frees_by_id.get(id).and_then(|v| v.iter().filter(|(finv, _)| *finv > *ret).map(|(_, fret)| *fret).min()).unwrap_or(u64::MAX);
                    intervals.push((*inv, end, i));
                }
                None => intervals.push((*inv, *ret, i)),
            }
        }
        for (i, (inv, ret, got, thread)) in sh.attempts.iter().enumerate() {
            if got.is_some() {
                continue;
            }
            let mut points = vec![*inv];
            for (s, _, o) in intervals.iter() {
                if *o != i && *s >= *inv && *s <= *ret {
                    points.push(*s);
                }
            }
            let best = points.iter().map(|t| intervals.iter().filter(|(s, e, o)| *o != i && *s <= *t && *t <= *e).count()).max().unwrap_or(0);
            if best < p.pool {
                ctx::report("C13", "exhausted_without_being_exhausted", key("exhausted_without_being_exhausted"), format!("thread {}'s allocation [{}..{}] failed although at no instant of the call more than {} of the {} slots were outstanding (counting allocations in flight)", thread, inv, ret, best, p.pool));
            }
        }
    }
    // a deallocated slot becomes allocatable again: exactly POOL_SIZE - pre_taken allocations succeed now
    let mut got = vec![];
    while let Some(id) = a.alloc(false, 9) {
        if got.contains(&id) || pre.contains(&id) {
            ctx::report("C13", "double_allocation", key("double_allocation"), format!("final refill: slot {} handed out while still owned", id));
            break;
        }
        got.push(id);
        if got.len() > p.pool {
            break;
        }
    }
    if got.len() + pre.len() != p.pool {
        ctx::report("C13", "capacity_after_quiescence", key("capacity_after_quiescence"), format!("after everything was deallocated, {} allocations succeeded with {} slots still held by the harness: pool of {}", got.len(), pre.len(), p.pool));
    }
}

pub struct AllocConc;

impl Scenario for AllocConc {
    type P = AllocParams;
    fn property(&self) -> &'static str {
        "C13"
    }
    fn name(&self) -> &'static str {
        "alloc_conc"
    }
    fn engine(&self) -> &'static str {
        "T"
    }
    fn generate(&self, rng: &mut Rng, tier: Tier) -> AllocParams {
        let pool = *rng.pick(&[2usize, 4, 8]);
        let n_threads = 2 + rng.below(3) as usize;
        let max_ops = if tier == Tier::Thorough { 7 } else { 5 };
        let mut threads = vec![];
        for _ in 0..n_threads {
            let n = 1 + rng.below(max_ops) as usize;
            threads.push((0..n).map(|_| match rng.below(10) { 0..=3 => AOp::Alloc, 4 | 5 => AOp::AllocWith, 6 | 7 => AOp::DeallocId, _ => AOp::DeallocRef }).collect());
        }
        let mut sched = SchedSpec::draw(rng);
        if rng.chance(1, 3) {
            sched.origin = u32::MAX - rng.below(3 * pool as u64 + 2) as u32;
        }
        AllocParams { sched, atomic_free_list: rng.chance(1, 2), pool, pre_taken: if rng.chance(1, 2) { rng.below(pool as u64) as u32 } else { 0 }, warm_cycles: rng.below(3) as u32, threads }
    }
    fn sched<'a>(&self, p: &'a AllocParams) -> &'a SchedSpec {
        &p.sched
    }
    fn with_sched(&self, p: &AllocParams, s: SchedSpec) -> AllocParams {
        let mut q = p.clone();
        q.sched = s;
        q
    }
    fn body(&self, p: &AllocParams) -> Option<Body> {
        let p2 = p.clone();
        Some(Arc::new(move || alloc_body(&p2)))
    }
    fn shrink(&self, p: &AllocParams) -> Vec<AllocParams> {
        let mut out = vec![];
        if p.threads.len() > 1 {
            for i in 0..p.threads.len() {
                let mut q = p.clone();
                q.threads.remove(i);
                out.push(q);
            }
        }
        for i in 0..p.threads.len() {
            if p.threads[i].len() > 1 {
                for j in (0..p.threads[i].len()).rev() {
                    let mut q = p.clone();
                    q.threads[i].remove(j);
                    out.push(q);
                }
            }
        }
        if p.warm_cycles > 0 {
            let mut q = p.clone();
            q.warm_cycles -= 1;
            out.push(q);
        }
        if p.pre_taken > 0 {
            let mut q = p.clone();
            q.pre_taken -= 1;
            out.push(q);
        }
        if p.sched.origin != 0 {
            let mut q = p.clone();
            q.sched.origin = 0;
            out.push(q);
        }
        if p.sched.weak_cas > 0 || p.sched.stall > 0 {
            let mut q = p.clone();
            q.sched.weak_cas = 0;
            q.sched.stall = 0;
            out.push(q);
        }
        if p.pool > 2 {
            let mut q = p.clone();
            q.pool /= 2;
            q.pre_taken = q.pre_taken.min(q.pool as u32 - 1);
            out.push(q);
        }
        out
    }
    fn size(&self, p: &AllocParams) -> u64 {
        p.threads.iter().map(|t| t.len() as u64).sum::<u64>() * 4 + p.pool as u64 + p.warm_cycles as u64 + p.pre_taken as u64
    }
    fn assumptions(&self) -> Vec<String> {
        vec!["sequential consistency at the instrumented atomics; plain shared accesses interleave at the instrumented yield points".into(), "a failed allocation is judged by the interval rule: legal iff at some instant of the call all POOL_SIZE slots were outstanding, counting allocations in flight".into()]
    }
}
