//! `full_listener` (engine T, C17): the Arc-based Multi channels make a producer *wait* (wake + 500 ms sleep + retry) when
//! one listener's queue is full. Here the producer really gets there -- one listener is slow (never polled) until its
//! queue is full -- and while the producer sleeps on it, that listener is dropped (with its leftovers) or, as a control,
//! finally starts consuming. The removal runs inside the thread-sleep seam (`ctx::set_thread_sleep_action`), i.e.
//! atomically with respect to the sleeping producer: the one history of "a listener is dropped during a send" in which no
//! instruction of the sender overlaps the rewrite of the live list, so that the known fan-out vs. compaction race
//! (see `known_findings.json`, C17) is not involved.
//!
//! Oracle: every listener that exists throughout yields every accepted event exactly once, in order.

use crate::chan::{self, Kind, StreamDyn};
use crate::ctx::{self, SchedSpec};
use crate::engine_t::Body;
use crate::framework::{Scenario, Tier};
use crate::harness::{self, HLock};
use crate::payload::Tracked;
use crate::rng::Rng;
use crate::scn_uni::{driver_thread, event_id, ChanArc, DriverCfg, Entry, Ev, EvKind, Shared};
use serde::{Deserialize, Serialize};
use std::sync::Arc;

#[derive(Clone, Copy, Debug, PartialEq, Eq, Serialize, Deserialize)]
pub enum SlowFate {
    /// the slow listener is dropped (with its leftovers) while the producer sleeps on its full queue
    Dropped,
    /// control: the slow listener finally starts consuming while the producer sleeps on its full queue
    StartsPolling,
}

#[derive(Clone, Debug, Serialize, Deserialize)]
pub struct FullParams {
    pub sched: SchedSpec,
    pub kind: Kind,
    pub buffer: usize,
    /// listeners created in this order get stream ids 0, 1, 2, ...
    pub listeners: usize,
    /// which of them is the slow one (never the last of the list)
    pub slow: usize,
    pub fate: SlowFate,
    /// events sent after the queue of the slow listener is full (the first of them makes the producer wait)
    pub extra: usize,
    /// the action happens at this sleep of the producer (1 = the first)
    pub at_sleep: u32,
    pub entry: Entry,
}

fn full_body(p: &FullParams) {
    harness::reset();
    ctx::clear_thread_sleep_action();
    let kind = p.kind;
    let key = |oracle: &str| format!("full_listener/{}/{}/{}", kind.name(), if p.fate == SlowFate::Dropped { "slow_listener_dropped" } else { "slow_listener_starts_polling" }, oracle);
    let ch: ChanArc = Arc::new(chan::make::<Tracked>(kind, p.buffer, 4, "unused"));
    let shared = Arc::new(HLock::new(Shared { events: vec![], drops: vec![], producers_active: 1 }));
    let mut drivers = vec![];
    let mut handles = vec![];
    let mut slow_stream: Option<Box<dyn StreamDyn>> = None;
    let mut thread_of = vec![];
    for l in 0..p.listeners {
        let stream = ch.create_stream();
        let thread_no = 10 + l;
        thread_of.push(thread_no);
        if l == p.slow {
            slow_stream = Some(stream);
            continue;
        }
        let d = harness::new_driver();
        drivers.push(d);
        let shared2 = Arc::clone(&shared);
        let cfg = DriverCfg { hold: 0, spurious_poll: 0, waker_churn: false };
        handles.push(shuttle::thread::spawn(move || driver_thread(stream, shared2, d, thread_no, cfg)));
    }
    // ---- the producer; what happens while it sleeps on the full queue is installed on its own thread (see ctx::ON_THREAD_SLEEP)
    let slow_driver = harness::new_driver();
    let acted: Arc<HLock<Option<u64>>> = Arc::new(HLock::new(None));
    let late_handle: Arc<HLock<Option<shuttle::thread::JoinHandle<()>>>> = Arc::new(HLock::new(None));
    let producer = {
        let (ch2, shared2, p2, acted2, late2) = (Arc::clone(&ch), Arc::clone(&shared), p.clone(), Arc::clone(&acted), Arc::clone(&late_handle));
        let slow_thread_no = thread_of[p.slow];
        let mut slow_stream = slow_stream;
        shuttle::thread::spawn(move || {
            let (shared3, acted3) = (Arc::clone(&shared2), Arc::clone(&acted2));
            let fate = p2.fate;
            let stream = slow_stream.take().expect("no slow stream");
            ctx::set_thread_sleep_action(
                p2.at_sleep,
                Box::new(move || {
                    *acted3.lock().unwrap() = Some(ctx::stamp());
                    match fate {
                        SlowFate::Dropped => {
                            ctx::trace(|| "the slow listener is dropped while the producer sleeps on its full queue".to_string());
                            ctx::fault_fired("listener_dropped_while_the_producer_waits_on_it");
                            drop(stream);
                        }
                        SlowFate::StartsPolling => {
                            ctx::trace(|| "the slow listener starts consuming while the producer sleeps on its full queue".to_string());
                            let cfg = DriverCfg { hold: 0, spurious_poll: 0, waker_churn: false };
                            let h = shuttle::thread::spawn(move || driver_thread(stream, shared3, slow_driver, slow_thread_no, cfg));
                            *late2.lock().unwrap() = Some(h);
                        }
                    }
                }),
            );
            for seq in 0..(p2.buffer + p2.extra) {
                let id = event_id(1, seq);
                let inv = ctx::stamp();
                ctx::op_mark(p2.entry.name());
                let (accepted, intact, invoked) = crate::scn_uni::do_send(&ch2, p2.entry, id);
                ctx::op_mark("");
                let ret = ctx::stamp();
                ctx::trace(|| format!("producer {}({:#x}) -> {}", p2.entry.name(), id, accepted));
                shared2.lock().unwrap().events.push(Ev { thread: 1, kind: EvKind::SendOp(p2.entry), id, inv, ret, accepted, ended: false, intact, setter_invoked_on_reject: invoked, addr: 0, wakes_delivered: 0, wake_misses: 0 });
                if ctx::aborted() {
                    return;
                }
            }
            shared2.lock().unwrap().producers_active = 0;
        })
    };
    let _ = producer.join();
    let never_waited = ctx::clear_thread_sleep_action();
    if ctx::aborted() {
        for d in drivers.iter() {
            harness::stop_driver(*d);
        }
        return;
    }
    if p.fate == SlowFate::StartsPolling && acted.lock().unwrap().is_some() {
        drivers.push(slow_driver);
        if let Some(h) = late_handle.lock().unwrap().take() {
            handles.push(h);
        }
    }
    ctx::with_ctx(|c| *c.probes.entry("harness.full_listener.producer_never_had_to_wait").or_insert(0) += never_waited as u64);
    // ---- quiescence; lost wake-ups (C04's subject) are neutralised by a harness-side flush
    harness::wait_quiescent(&drivers);
    loop {
        let before = shared.lock().unwrap().events.iter().filter(|e| e.kind == EvKind::Poll && e.accepted).count();
        for d in drivers.iter() {
            harness::kick(*d);
        }
        harness::wait_quiescent(&drivers);
        let after = shared.lock().unwrap().events.iter().filter(|e| e.kind == EvKind::Poll && e.accepted).count();
        if after == before || ctx::aborted() {
            break;
        }
    }
    if ctx::aborted() {
        return;
    }
    // ---- oracle
    {
        let sh = shared.lock().unwrap();
        let accepted: Vec<u32> = sh.events.iter().filter(|e| matches!(e.kind, EvKind::SendOp(_)) && e.accepted).map(|e| e.id).collect();
        for l in 0..p.listeners {
            let throughout = l != p.slow || (p.fate == SlowFate::StartsPolling && acted.lock().unwrap().is_some());
            if !throughout {
                continue;
            }
            let yielded: Vec<u32> = sh.events.iter().filter(|e| e.thread == thread_of[l] && e.kind == EvKind::Poll && e.accepted).map(|e| e.id).collect();
            if yielded != accepted {
                let missed: Vec<u32> = accepted.iter().copied().filter(|id| !yielded.contains(id)).collect();
                let oracle = if !missed.is_empty() {
                    "missed"
                } else if yielded.len() > accepted.len() {
                    "duplicate"
                } else {
                    "order"
                };
                ctx::report(
                    "C17",
                    oracle,
                    key(oracle),
                    format!("listener #{} (stream id {}) exists throughout; accepted events {:x?}; it yielded {:x?} (the slow listener is #{}, acted at stamp {:?})", l, l, accepted, yielded, p.slow, *acted.lock().unwrap()),
                );
                break;
            }
        }
    }
    ch.cancel_all();
    for d in drivers.iter() {
        harness::stop_driver(*d);
    }
    for h in handles {
        let _ = h.join();
    }
}

pub struct FullListener;

impl Scenario for FullListener {
    type P = FullParams;
    fn property(&self) -> &'static str {
        "C17"
    }
    fn name(&self) -> &'static str {
        "full_listener"
    }
    fn engine(&self) -> &'static str {
        "T"
    }
    fn generate(&self, rng: &mut Rng, _tier: Tier) -> FullParams {
        let kind = *rng.pick(&[Kind::MultiArcAtomic, Kind::MultiArcFullSync, Kind::MultiArcCrossbeam]);
        // the crossbeam kind decides "small queue: just try" for lengths <= 2 and ignores the outcome: a queue of 2 never makes
        // the producer wait (it drops the event for that listener instead; buffers that small are outside every property)
        let buffer = if kind == Kind::MultiArcCrossbeam { 4 } else { *rng.pick(&[2usize, 4]) };
        let listeners = 2 + rng.below(2) as usize;
        let slow = rng.below(listeners as u64 - 1) as usize;
        let mut sched = SchedSpec::draw(rng);
        sched.origin = if rng.chance(1, 8) { u32::MAX - rng.below(3 * buffer as u64 + 2) as u32 } else { 0 };
        FullParams {
            sched,
            kind,
            buffer,
            listeners,
            slow,
            fate: if rng.chance(3, 4) { SlowFate::Dropped } else { SlowFate::StartsPolling },
            extra: 1 + rng.below(2) as usize,
            at_sleep: 1 + rng.below(3) as u32,
            entry: *rng.pick(&[Entry::Send, Entry::SendWith, Entry::SendDerived]),
        }
    }
    fn sched<'a>(&self, p: &'a FullParams) -> &'a SchedSpec {
        &p.sched
    }
    fn with_sched(&self, p: &FullParams, s: SchedSpec) -> FullParams {
        let mut q = p.clone();
        q.sched = s;
        q
    }
    fn body(&self, p: &FullParams) -> Option<Body> {
        let p2 = p.clone();
        Some(Arc::new(move || full_body(&p2)))
    }
    fn shrink(&self, p: &FullParams) -> Vec<FullParams> {
        let mut out = vec![];
        if p.listeners > 2 && p.slow < p.listeners - 2 {
            let mut q = p.clone();
            q.listeners -= 1;
            out.push(q);
        }
        if p.extra > 1 {
            let mut q = p.clone();
            q.extra -= 1;
            out.push(q);
        }
        if p.at_sleep > 1 {
            let mut q = p.clone();
            q.at_sleep = 1;
            out.push(q);
        }
        if p.buffer > 2 {
            let mut q = p.clone();
            q.buffer = 2;
            out.push(q);
        }
        if p.entry != Entry::Send {
            let mut q = p.clone();
            q.entry = Entry::Send;
            out.push(q);
        }
        if p.sched.weak_cas > 0 || p.sched.stall > 0 || p.sched.origin != 0 {
            let mut q = p.clone();
            q.sched.weak_cas = 0;
            q.sched.stall = 0;
            q.sched.origin = 0;
            out.push(q);
        }
        out
    }
    fn size(&self, p: &FullParams) -> u64 {
        (p.listeners * 3 + p.buffer + p.extra * 2) as u64 + p.at_sleep as u64
    }
    fn key_context(&self, p: &FullParams) -> String {
        format!("{}/", p.kind.name())
    }
    fn assumptions(&self) -> Vec<String> {
        vec![
            "the removal of the slow listener runs inside the thread-sleep seam of the waiting producer, i.e. atomically with respect to that producer (the other listeners' threads interleave freely with it)".into(),
            "the slow listener is never the last of the live list (a producer waiting on the last entry re-reads a sentinel there: see DESIGN.md, observed outside the listed properties)".into(),
            "delivery is judged after a harness-side flush, so that a lost wake-up (C04) cannot pose as a missed event".into(),
        ]
    }
}
