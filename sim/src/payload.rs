//! Instrumented payload types. `Tracked` has a destructor that reports to the per-run ledger; `Plain` has none.

use crate::ctx::with_ctx;
use std::collections::BTreeMap;

const MAGIC: u32 = 0x7AC4_ED01;
const DEAD: u32 = 0xDEAD_DEAD;

#[inline]
fn canary_of(id: u32) -> u64 {
    (id as u64).wrapping_mul(0x9E37_79B9_7F4A_7C15) ^ 0x5555_AAAA_5555_AAAA
}

pub trait Payload: std::fmt::Debug + Send + Sync + Default + 'static {
    const HAS_DROP: bool;
    fn make(id: u32) -> Self;
    fn id(&self) -> u32;
    /// content is exactly what `make(id)` wrote
    fn intact(&self) -> bool;
}

#[derive(Debug)]
#[repr(C)]
pub struct Tracked {
    magic: u32,
    id: u32,
    canary: u64,
}

impl Default for Tracked {
    fn default() -> Self {
        Tracked { magic: MAGIC, id: 0, canary: canary_of(0) }
    }
}

impl Payload for Tracked {
    const HAS_DROP: bool = true;
    fn make(id: u32) -> Self {
        with_ctx(|c| c.ledger.created(id));
        Tracked { magic: MAGIC, id, canary: canary_of(id) }
    }
    fn id(&self) -> u32 {
        self.id
    }
    fn intact(&self) -> bool {
        self.magic == MAGIC && self.canary == canary_of(self.id)
    }
}

impl Drop for Tracked {
    fn drop(&mut self) {
        let (magic, id, ok) = (self.magic, self.id, self.canary == canary_of(self.id));
        self.magic = DEAD;
        if magic == MAGIC && id == 0 && ok {
            return; // a never-sent slot filler
        }
        with_ctx(|c| {
            // harness-side handle table (C14 / C05 engine-T scenarios): a destructor that runs while some handle to the
            // value has not even been passed to `drop` yet is premature; the run is stopped at once (the handles that
            // are left are leaked) so that freed bookkeeping memory is never touched by the harness itself
            if magic == MAGIC && ok {
                if let Some(live) = c.ledger.live.get(&id).copied() {
                    if live > 0 {
                        let prop = c.ledger.held_property;
                        c.violation(prop, "destroyed_while_held", format!("{}/destroyed_while_held", c.ledger.held_family), format!("the destructor of value {:#x} ran while {} handle(s) to it were still alive", id, live));
                        if c.aborted.is_none() {
                            c.aborted = Some(format!("verdict: value {:#x} destroyed while held", id));
                        }
                    }
                }
            }
            if magic == DEAD {
                c.ledger.double += 1;
                c.violation("C05", "destroyed_twice", "ledger/destroyed_twice".into(), format!("payload id {} destroyed again (storage already marked destroyed)", id));
            } else if magic != MAGIC || !ok {
                c.ledger.garbage += 1;
                c.violation("C05", "destroyed_never_created", "ledger/destroyed_never_created".into(), format!("destructor ran on bytes that are not a live payload (magic {:#x}, id {})", magic, id));
            } else {
                c.ledger.dropped(id);
                if c.ledger.destroyed_count(id) > c.ledger.created_count(id).max(1) {
                    c.ledger.double += 1;
                    c.violation("C05", "destroyed_twice", "ledger/destroyed_twice".into(), format!("payload id {} destroyed {} times", id, c.ledger.destroyed_count(id)));
                }
            }
        });
    }
}

#[derive(Debug, Default, Clone, Copy, PartialEq, Eq)]
pub struct Plain(pub u64);

impl Payload for Plain {
    const HAS_DROP: bool = false;
    fn make(id: u32) -> Self {
        Plain(((!id as u64) << 32) | id as u64)
    }
    fn id(&self) -> u32 {
        self.0 as u32
    }
    fn intact(&self) -> bool {
        (self.0 >> 32) as u32 == !(self.0 as u32) || self.0 == 0
    }
}

#[derive(Debug)]
pub struct Ledger {
    /// id -> (created, destroyed) counts
    pub ids: BTreeMap<u32, (u32, u32)>,
    pub double: u32,
    pub garbage: u32,
    /// harness-maintained: value id -> handles that exist and have not been passed to `drop` yet
    pub live: BTreeMap<u32, i32>,
    /// harness-maintained: value id -> clone / drop / bulk-copy operations in progress
    pub in_flight: BTreeMap<u32, i32>,
    /// harness-maintained: bumped whenever an operation on a handle of the value starts or ends
    pub version: BTreeMap<u32, u64>,
    /// which property / scenario family a premature destruction is reported under
    pub held_property: &'static str,
    pub held_family: &'static str,
    /// "ownership mode" of the stream drivers (C05's engine-T scenario): consumers keep, clone, convert, hand over and
    /// release the handles they are yielded, and every step is checked against this ledger
    pub own: Option<OwnCfg>,
    /// harness-maintained: payload address -> (value id, live handles observed at that address)
    pub addr_live: BTreeMap<usize, (u32, i32)>,
    /// harness-maintained: value id -> number of streams / listeners that yielded it so far
    pub delivered: BTreeMap<u32, u32>,
    /// harness-maintained: ids whose accepting send operation has returned
    pub sent_done: std::collections::BTreeSet<u32>,
    /// how many streams / listeners each accepted event is to be delivered to (static listener set)
    pub expected_deliveries: u32,
}

/// probabilities are per 1024, drawn after every yielded handle
#[derive(Clone, Copy, Debug, serde::Serialize, serde::Deserialize, PartialEq, Eq)]
pub struct OwnCfg {
    /// clone the handle just yielded (shared kinds)
    pub clone: u32,
    /// convert a unique handle into a shared one (zero-copy Uni)
    pub share: u32,
    /// hand one of the held handles over to the releaser thread (which drops it there)
    pub give: u32,
    /// OgreArc: increment_references(n) + n raw copies
    pub bulk: u32,
}

impl Default for Ledger {
    fn default() -> Self {
        Ledger {
            ids: BTreeMap::new(),
            double: 0,
            garbage: 0,
            live: BTreeMap::new(),
            in_flight: BTreeMap::new(),
            version: BTreeMap::new(),
            held_property: "C05",
            held_family: "ledger",
            own: None,
            addr_live: BTreeMap::new(),
            delivered: BTreeMap::new(),
            sent_done: Default::default(),
            expected_deliveries: 1,
        }
    }
}

impl Ledger {
    pub fn created(&mut self, id: u32) {
        self.ids.entry(id).or_insert((0, 0)).0 += 1;
    }
    pub fn dropped(&mut self, id: u32) {
        let e = self.ids.entry(id).or_insert((0, 0));
        e.1 += 1;
    }
    pub fn destroyed_count(&self, id: u32) -> u32 {
        self.ids.get(&id).map(|e| e.1).unwrap_or(0)
    }
    pub fn created_count(&self, id: u32) -> u32 {
        self.ids.get(&id).map(|e| e.0).unwrap_or(0)
    }
}
