//! Engine H: single-threaded histories checked step by step against a small executable reference model.
//! "Crash" = a listener/stream dropped with events still queued; "restart" = a new listener on a recycled stream id;
//! "process crash" = the channel torn down with events inside; "clock jump" = sequence counters starting next to
//! the 32-bit wrap. Decides C08 (reservations), C10 (listener lifetime / id recycling), C15 (wrap-around,
//! differential against origin 0), C16 (rejected sends; exact capacity) and the history part of C05 (teardown ledger).

use crate::chan::{self, ChanDyn, Gate, HandleDyn, Kind, SendOutcome, StreamDyn};
use crate::ctx::{self, Policy, SchedSpec};
use crate::engine_t::{run_passive, RunOut};
use crate::framework::{Scenario, Tier};
use crate::harness;
use crate::payload::{Payload, Plain, Tracked};
use crate::rng::Rng;
use serde::{Deserialize, Serialize};
use std::collections::VecDeque;
use std::task::{Context, Poll};

#[derive(Clone, Copy, Debug, PartialEq, Eq, Serialize, Deserialize)]
pub enum HOp {
    Send,
    SendWith,
    SendAsync,
    SendDerived,
    Reserve,
    /// fill + try_send_reserved on the k-th outstanding reservation (0 = oldest); may answer false
    SendReserved(u8),
    /// try_cancel_slot_reserve on the k-th outstanding reservation, counted from the newest (0 = newest)
    CancelReserved(u8),
    /// poll stream / listener #l once; a yielded handle is kept
    Poll(u8),
    /// release the oldest handle held (any listener)
    Release,
    Create,
    /// drop stream / listener #l together with whatever it has not consumed, and the handles it yielded
    DropStream(u8),
    CancelAll,
    Len,
}

#[derive(Clone, Debug, Serialize, Deserialize)]
pub struct HistParams {
    pub sched: SchedSpec,
    pub kind: Kind,
    pub buffer: usize,
    pub max_streams: usize,
    /// payload type with a destructor?
    pub tracked: bool,
    pub ops: Vec<HOp>,
    /// sequence origin to compare with origin 0 (0 = no differential run)
    pub other_origin: u32,
    /// streams / listeners created before the first op
    pub initial_streams: usize,
}

struct Reservation {
    slot: usize,
    id: u32,
    filled: bool,
}

struct Live {
    stream: Box<dyn StreamDyn>,
    /// model: what this listener (Multi) is still to yield; Uni streams share `uni_queue`
    queue: VecDeque<u32>,
    cancelled: bool,
    ended: bool,
}

#[derive(Default)]
struct Transcript(Vec<String>);

fn model_capacity_taken(kind: Kind, uni_queue: &VecDeque<u32>, lives: &[Option<Live>], reserved: usize, held: &[(usize, u32, Box<dyn HandleDyn>)]) -> usize {
    match kind {
        Kind::UniMoveAtomic | Kind::UniMoveFullSync | Kind::UniMoveCrossbeam => uni_queue.len() + reserved,
        Kind::UniZcAtomic | Kind::UniZcFullSync => uni_queue.len() + reserved + held.len(),
        Kind::MultiOgreAtomic | Kind::MultiOgreFullSync => {
            // distinct events still referenced by a listener queue or a held handle
            let mut ids: Vec<u32> = vec![];
            for l in lives.iter().flatten() {
                for id in l.queue.iter() {
                    if !ids.contains(id) {
                        ids.push(*id);
                    }
                }
            }
            for (_, id, _) in held.iter() {
                if !ids.contains(id) {
                    ids.push(*id);
                }
            }
            ids.len() + reserved
        }
        _ => 0,
    }
}

/// Executes one history from the given sequence origin; model mismatches are reported as violations of `property`.
/// Returns the observable transcript.
fn run_history<T: Payload + chan::IntoHandle>(p: &HistParams, property: &str, family: &str, log_name: &str, undelivered_out: &mut Vec<u32>) -> Vec<String> {
    harness::reset();
    let kind = p.kind;
    let key = |oracle: &str| format!("{}/{}/{}", family, kind.name(), oracle);
    let ch = chan::make::<T>(kind, p.buffer, p.max_streams, log_name);
    let waker = futures::task::noop_waker();
    let mut cx = Context::from_waker(&waker);
    let mut tr = Transcript::default();
    let mut lives: Vec<Option<Live>> = vec![];
    let mut uni_queue: VecDeque<u32> = VecDeque::new();
    let mut reservations: Vec<Reservation> = vec![];
    let mut held: Vec<(usize, u32, Box<dyn HandleDyn>)> = vec![];
    let mut next_id = 1u32;
    let mut sent_reserved_ids: Vec<u32> = vec![];
    let mut cancelled_ids: Vec<u32> = vec![];
    let is_uni = kind.is_uni();
    let n = p.buffer;
    macro_rules! live_count {
        () => {
            lives.iter().flatten().count()
        };
    }
    macro_rules! create {
        () => {{
            if live_count!() < p.max_streams {
                let stream = ch.create_stream();
                tr.0.push(format!("create -> id {}", stream.stream_id()));
                lives.push(Some(Live { stream, queue: VecDeque::new(), cancelled: false, ended: false }));
                let running = ch.running_streams();
                if running as usize != live_count!() {
                    ctx::report(property, "running_streams_count", key("running_streams_count"), format!("running_streams_count() == {} with {} live streams (after a creation)", running, live_count!()));
                }
            }
        }};
    }
    for _ in 0..p.initial_streams {
        create!();
    }
    for (step, op) in p.ops.iter().enumerate() {
        if ctx::aborted() {
            break;
        }
        ctx::trace(|| format!("step {} {:?}", step, op));
        match *op {
            HOp::Send | HOp::SendWith | HOp::SendAsync | HOp::SendDerived => {
                // legality: the movable atomic channel permits plain sends only with no reservation outstanding
                if kind == Kind::UniMoveAtomic && !reservations.is_empty() {
                    continue;
                }
                if *op == HOp::SendDerived && !kind.is_arc_multi() {
                    continue;
                }
                if *op == HOp::SendAsync && !kind.supports_async_send() {
                    continue;
                }
                // the Arc Multi kinds wait (by design) when a listener's buffer is full: never drive them there
                if kind.is_arc_multi() && lives.iter().flatten().any(|l| l.queue.len() + 1 >= n) {
                    continue;
                }
                let id = next_id;
                next_id += 1;
                let pending_before = ch.pending();
                let outcome = match *op {
                    HOp::Send => ch.send(id),
                    HOp::SendWith => ch.send_with(id),
                    HOp::SendDerived => ch.send_derived(id),
                    _ => harness::block_on_sim(ch.send_with_async(id, Gate::new(0)), |_| true).unwrap_or(SendOutcome::Fatal),
                };
                if ctx::aborted() {
                    break;
                }
                let taken = model_capacity_taken(kind, &uni_queue, &lives, reservations.len(), &held);
                let expect_accept = match kind {
                    Kind::MultiArcAtomic | Kind::MultiArcFullSync | Kind::MultiArcCrossbeam | Kind::MultiMmapLog => true,
                    _ => taken < n,
                };
                tr.0.push(format!("{:?}({}) -> {:?}", op, id, outcome.accepted()));
                match outcome {
                    SendOutcome::Accepted => {
                        if !expect_accept {
                            ctx::report(property, "accepted_beyond_capacity", key("accepted_beyond_capacity"), format!("step {}: {:?} was accepted although all {} slots were taken (model: {} taken)", step, op, n, taken));
                        }
                        if is_uni {
                            uni_queue.push_back(id);
                        } else {
                            for l in lives.iter_mut().flatten() {
                                l.queue.push_back(id);
                            }
                        }
                    }
                    SendOutcome::Rejected { returned_intact, setter_invoked } => {
                        if expect_accept {
                            ctx::report(property, "rejected_with_room", key("rejected_with_room"), format!("step {}: {:?} was rejected as full although only {} of {} slots were taken", step, op, taken, n));
                        }
                        if !returned_intact || setter_invoked {
                            ctx::report(property, "rejected_input_touched", key("rejected_input_touched"), format!("step {}: the rejected input of {:?} was not handed back unchanged / un-invoked", step, op));
                        }
                        let pending_after = ch.pending();
                        if pending_after != pending_before {
                            ctx::report(property, "rejected_send_changed_pending", key("rejected_send_changed_pending"), format!("step {}: pending_items_count() went from {} to {} across a rejected {:?}", step, pending_before, pending_after, op));
                        }
                    }
                    SendOutcome::Fatal => {
                        ctx::report(property, "fatal_send", key("fatal_send"), format!("step {}: {:?} answered Fatal", step, op));
                    }
                }
            }
            HOp::Reserve => {
                if !kind.supports_reserve() {
                    continue;
                }
                let taken = model_capacity_taken(kind, &uni_queue, &lives, reservations.len(), &held);
                let got = ch.reserve();
                tr.0.push(format!("reserve -> {}", got.is_some()));
                match got {
                    Some(slot) => {
                        if taken >= n {
                            ctx::report(property, "reserved_beyond_capacity", key("reserved_beyond_capacity"), format!("step {}: a slot was reserved although all {} slots were taken", step, n));
                        }
                        if reservations.iter().any(|r| r.slot == slot) {
                            ctx::report(property, "slot_reserved_twice", key("slot_reserved_twice"), format!("step {}: reserve_slot() handed out a slot that is still reserved", step));
                        }
                        let id = next_id;
                        next_id += 1;
                        reservations.push(Reservation { slot, id, filled: false });
                    }
                    None => {
                        if taken < n {
                            ctx::report(property, "reserve_refused_with_room", key("reserve_refused_with_room"), format!("step {}: reserve_slot() answered None although only {} of {} slots were taken", step, taken, n));
                        }
                    }
                }
            }
            HOp::SendReserved(k) => {
                if reservations.is_empty() {
                    continue;
                }
                let k = (k as usize) % reservations.len();
                let (slot, id) = (reservations[k].slot, reservations[k].id);
                if !reservations[k].filled {
                    ch.fill(slot, id);
                    reservations[k].filled = true;
                }
                let ok = ch.send_reserved(slot);
                tr.0.push(format!("send_reserved(#{}: {}) -> {}", k, id, ok));
                if ok {
                    reservations.remove(k);
                    sent_reserved_ids.push(id);
                    if is_uni {
                        // the movable ring publishes at the reserved position, i.e. in reservation order (only the oldest can succeed)
                        uni_queue.push_back(id);
                    } else {
                        for l in lives.iter_mut().flatten() {
                            l.queue.push_back(id);
                        }
                    }
                    if kind == Kind::UniMoveAtomic && k != 0 {
                        ctx::report(property, "published_out_of_reservation_order", key("published_out_of_reservation_order"), format!("step {}: a reserved slot was published before an older reservation", step));
                    }
                } else if kind != Kind::UniMoveAtomic || k == 0 {
                    // nothing else runs: a `false` here can never turn into `true`
                    ctx::report(property, "send_reserved_never_succeeds", key("send_reserved_never_succeeds"), format!("step {}: try_send_reserved() answered false for a slot that nothing prevents from being sent (single-threaded history)", step));
                }
            }
            HOp::CancelReserved(k) => {
                if reservations.is_empty() {
                    continue;
                }
                let k_from_newest = (k as usize) % reservations.len();
                let idx = reservations.len() - 1 - k_from_newest;
                // the movable atomic channel documents: cancel in reverse reservation order
                if kind == Kind::UniMoveAtomic && k_from_newest != 0 {
                    continue;
                }
                let (slot, id) = (reservations[idx].slot, reservations[idx].id);
                if T::HAS_DROP && kind != Kind::UniMoveAtomic && !reservations[idx].filled {
                    // a pooled slot with a destructor-bearing payload must be initialised before the pool destroys it
                    ch.fill(slot, id);
                    reservations[idx].filled = true;
                }
                if T::HAS_DROP && kind == Kind::UniMoveAtomic && reservations[idx].filled {
                    // the movable ring never destroys a cancelled slot's content: nothing written there may need a destructor
                    continue;
                }
                let ok = ch.cancel_reserved(slot);
                tr.0.push(format!("cancel_reserved(#{}) -> {}", idx, ok));
                if ok {
                    reservations.remove(idx);
                    cancelled_ids.push(id);
                } else {
                    ctx::report(property, "cancel_never_succeeds", key("cancel_never_succeeds"), format!("step {}: try_cancel_slot_reserve() answered false for the newest reservation (single-threaded history)", step));
                }
            }
            HOp::Poll(l) => {
                let alive: Vec<usize> = lives.iter().enumerate().filter(|(_, s)| s.as_ref().map(|s| !s.ended).unwrap_or(false)).map(|(i, _)| i).collect();
                if alive.is_empty() {
                    continue;
                }
                let li = alive[(l as usize) % alive.len()];
                let live = lives[li].as_mut().unwrap();
                let polled = live.stream.poll(&mut cx);
                let expected = if is_uni { uni_queue.front().copied() } else { live.queue.front().copied() };
                match polled {
                    Poll::Ready(Some(h)) => {
                        let (id, intact) = (h.id(), h.intact());
                        tr.0.push(format!("poll(#{}) -> {}", li, id));
                        if !intact {
                            ctx::report(property, "payload_corrupted", key("payload_corrupted"), format!("step {}: stream #{} yielded a payload that is not what was written (id field {})", step, li, id));
                        }
                        if cancelled_ids.contains(&id) {
                            ctx::report(property, "cancelled_slot_delivered", key("cancelled_slot_delivered"), format!("step {}: stream #{} yielded {}, whose reservation had been cancelled", step, li, id));
                        }
                        match expected {
                            Some(e) if e == id => {
                                if is_uni {
                                    uni_queue.pop_front();
                                } else {
                                    live.queue.pop_front();
                                }
                            }
                            Some(e) => {
                                ctx::report(property, "wrong_event", key("wrong_event"), format!("step {}: stream #{} yielded {} where the model expects {}", step, li, id, e));
                                if is_uni {
                                    uni_queue.retain(|x| *x != id);
                                } else {
                                    live.queue.retain(|x| *x != id);
                                }
                            }
                            None => {
                                ctx::report(property, "unexpected_event", key("unexpected_event"), format!("step {}: stream #{} yielded {} although nothing sent during its lifetime is outstanding for it", step, li, id));
                            }
                        }
                        held.push((li, id, h));
                    }
                    Poll::Ready(None) => {
                        tr.0.push(format!("poll(#{}) -> end", li));
                        if !live.cancelled {
                            ctx::report(property, "ended_without_request", key("ended_without_request"), format!("step {}: stream #{} answered end-of-stream without having been told to end", step, li));
                        }
                        if expected.is_some() {
                            ctx::report(property, "ended_with_events_buffered", key("ended_with_events_buffered"), format!("step {}: stream #{} answered end-of-stream while {:?} was still buffered for it", step, li, expected));
                        }
                        live.ended = true;
                    }
                    Poll::Pending => {
                        tr.0.push(format!("poll(#{}) -> pending", li));
                        if let Some(e) = expected {
                            ctx::report(property, "missed_event", key("missed_event"), format!("step {}: stream #{} answered Pending while the model has {} buffered for it", step, li, e));
                        } else if live.cancelled {
                            ctx::report(property, "cancelled_but_pending", key("cancelled_but_pending"), format!("step {}: stream #{} was told to end, has nothing buffered, and still answers Pending", step, li));
                        }
                    }
                }
            }
            HOp::Release => {
                if !held.is_empty() {
                    let (_, id, h) = held.remove(0);
                    drop(h);
                    tr.0.push(format!("release({})", id));
                }
            }
            HOp::Create => create!(),
            HOp::DropStream(l) => {
                let alive: Vec<usize> = lives.iter().enumerate().filter(|(_, s)| s.is_some()).map(|(i, _)| i).collect();
                if alive.is_empty() {
                    continue;
                }
                let li = alive[(l as usize) % alive.len()];
                // handles do not outlive... their stream is fine, but keep the model simple: release this listener's handles first
                let mut k = 0;
                while k < held.len() {
                    if held[k].0 == li {
                        let (_, _, h) = held.remove(k);
                        drop(h);
                    } else {
                        k += 1;
                    }
                }
                let live = lives[li].take().unwrap();
                drop(live);
                tr.0.push(format!("drop(#{})", li));
                let running = ch.running_streams();
                if running as usize != live_count!() {
                    ctx::report(property, "running_streams_count", key("running_streams_count"), format!("running_streams_count() == {} with {} live streams (after a drop)", running, live_count!()));
                }
            }
            HOp::CancelAll => {
                ch.cancel_all();
                for l in lives.iter_mut().flatten() {
                    l.cancelled = true;
                }
                tr.0.push("cancel_all".into());
            }
            HOp::Len => {
                let len = ch.pending();
                tr.0.push(format!("len -> {}", len));
                let expected = if is_uni { uni_queue.len() } else { lives.iter().flatten().map(|l| l.queue.len()).max().unwrap_or(0) };
                if kind != Kind::MultiMmapLog && len as usize != expected {
                    ctx::report(property, "pending_items_count", key("pending_items_count"), format!("step {}: pending_items_count() == {}, the model has {}", step, len, expected));
                }
            }
        }
    }
    if ctx::aborted() {
        return tr.0;
    }
    // ---- resolve what is outstanding: reservations (send oldest-first), then consume and release everything
    while !reservations.is_empty() {
        let (slot, id) = (reservations[0].slot, reservations[0].id);
        if !reservations[0].filled {
            ch.fill(slot, id);
            reservations[0].filled = true;
        }
        if ch.send_reserved(slot) {
            reservations.remove(0);
            sent_reserved_ids.push(id);
            if is_uni {
                uni_queue.push_back(id);
            } else {
                for l in lives.iter_mut().flatten() {
                    l.queue.push_back(id);
                }
            }
        } else {
            ctx::report(property, "send_reserved_never_succeeds", key("send_reserved_never_succeeds"), "final resolution: the oldest reservation cannot be sent".into());
            break;
        }
    }
    held.clear();
    let capacity_check = !kind.is_arc_multi() && kind != Kind::MultiMmapLog && reservations.is_empty() && lives.iter().flatten().all(|l| !l.cancelled);
    if capacity_check {
        if live_count!() == 0 {
            create!();
        }
        // drain everything
        for li in 0..lives.len() {
            if let Some(live) = lives[li].as_mut() {
                let mut guard = 0;
                loop {
                    match live.stream.poll(&mut cx) {
                        Poll::Ready(Some(h)) => {
                            let id = h.id();
                            let expected = if is_uni { uni_queue.pop_front() } else { live.queue.pop_front() };
                            if expected != Some(id) {
                                ctx::report(property, "wrong_event", key("wrong_event"), format!("final drain: stream #{} yielded {} where the model expects {:?}", li, id, expected));
                            }
                            drop(h);
                        }
                        _ => break,
                    }
                    guard += 1;
                    if guard > 64 {
                        break;
                    }
                }
                let left = if is_uni { uni_queue.len() } else { live.queue.len() };
                if left != 0 && !is_uni {
                    ctx::report(property, "missed_event", key("missed_event"), format!("final drain: stream #{} stopped with {} events of the model undelivered", li, left));
                }
            }
        }
        if is_uni && !uni_queue.is_empty() {
            ctx::report(property, "missed_event", key("missed_event"), format!("final drain: {} accepted events never came out", uni_queue.len()));
        }
        // "after everything was sent or cancelled and consumed, exactly BUFFER_SIZE events are accepted and the next is rejected"
        let mut accepted = 0;
        for _ in 0..n {
            let id = next_id;
            next_id += 1;
            if ch.send(id).accepted() {
                accepted += 1;
                undelivered_out.push(id);
            }
        }
        let one_more = ch.send(next_id).accepted();
        if one_more {
            undelivered_out.push(next_id);
        }
        next_id += 1;
        tr.0.push(format!("refill -> {} accepted, one more: {}", accepted, one_more));
        if accepted != n || one_more {
            ctx::report(property, "capacity_after_history", key("capacity_after_history"), format!("after everything was sent or cancelled, consumed and released, {} of {} sends were accepted (and a further one: {})", accepted, n, one_more));
        }
    }
    // ---- teardown with whatever is still inside (process crash): streams first, then the channel.
    // Events never delivered (still buffered for somebody) need not be destroyed by a teardown -- at most once; everything
    // that was delivered and released must have been destroyed exactly once
    undelivered_out.extend(uni_queue.iter().copied());
    for l in lives.iter().flatten() {
        undelivered_out.extend(l.queue.iter().copied());
    }
    lives.clear();
    drop(ch);
    let _ = next_id;
    if T::HAS_DROP {
        // what the teardown destroyed is part of the observable behaviour too (differential against a fresh channel: C15)
        let ledger: Vec<(u32, (u32, u32))> = ctx::with_ctx(|c| c.ledger.ids.iter().map(|(id, e)| (*id, *e)).collect()).unwrap_or_default();
        tr.0.push(format!("after teardown: (payload, (created, destroyed)) = {:?}", ledger));
    }
    tr.0
}

fn history_body(p: &HistParams, property: &'static str, family: &'static str) {
    let log_name = chan::scratch_log_name("hist");
    let run = |origin: u32| -> (Vec<String>, Vec<u32>) {
        ctx::with_ctx(|c| c.spec.origin = origin);
        let mut undelivered: Vec<u32> = vec![];
        let tr = if p.tracked {
            run_history::<Tracked>(p, property, family, &log_name, &mut undelivered)
        } else {
            run_history::<Plain>(p, property, family, &log_name, &mut undelivered)
        };
        (tr, undelivered)
    };
    let (base, undelivered_base) = run(0);
    // C05 (history part): after teardown every payload that was created has been destroyed exactly once
    if p.tracked && p.kind != Kind::MultiMmapLog && !ctx::aborted() {
        ctx::with_ctx(|c| {
            let leaked: Vec<u32> = c.ledger.ids.iter().filter(|(id, (created, destroyed))| destroyed < created && !undelivered_base.contains(id)).map(|(id, _)| *id).collect();
            if !leaked.is_empty() {
                c.violation("C05", "never_destroyed", format!("{}/{}/teardown/never_destroyed", family, p.kind.name()), format!("payloads {:?} were delivered and every handle to them released (or they were rejected / cancelled), yet they had not been destroyed by the time the channel was gone", leaked));
            }
            c.ledger = Default::default();
        });
    }
    if p.other_origin != 0 && !ctx::aborted() {
        ctx::with_ctx(|c| c.ledger = Default::default());
        let (other, _) = run(p.other_origin);
        if !ctx::aborted() && other != base {
            let first = base.iter().zip(other.iter()).position(|(a, b)| a != b).unwrap_or(base.len().min(other.len()));
            ctx::report(
                "C15",
                "differs_from_fresh",
                format!("{}/{}/differs_from_fresh", family, p.kind.name()),
                format!("the same history answers differently when the sequence counters start at {:#x}: step {}: fresh `{}` vs `{}`", p.other_origin, first, base.get(first).cloned().unwrap_or_default(), other.get(first).cloned().unwrap_or_default()),
            );
        }
    }
    if p.kind == Kind::MultiMmapLog {
        let _ = std::fs::remove_file(chan::mmap_log_path(&log_name));
    }
}

#[derive(Clone, Copy, PartialEq, Eq)]
pub enum Flavour {
    Reservations,
    Lifetimes,
    WrapAround,
    Rejections,
    Teardown,
}

pub struct Hist {
    pub property: &'static str,
    pub flavour: Flavour,
}

fn draw_op(rng: &mut Rng, flavour: Flavour, kind: Kind) -> HOp {
    let r = rng.below(100);
    let k = rng.below(4) as u8;
    match flavour {
        Flavour::Reservations => match r {
            0..=24 => HOp::Reserve,
            25..=44 => HOp::SendReserved(if rng.chance(2, 3) { 0 } else { k }),
            45..=54 => HOp::CancelReserved(if rng.chance(2, 3) { 0 } else { k }),
            55..=64 => *rng.pick(&[HOp::Send, HOp::SendWith]),
            65..=84 => HOp::Poll(k),
            85..=94 => HOp::Release,
            _ => HOp::Len,
        },
        Flavour::Lifetimes => match r {
            0..=29 => *rng.pick(&[HOp::Send, HOp::SendWith, HOp::SendAsync, HOp::SendDerived]),
            30..=54 => HOp::Poll(k),
            55..=66 => HOp::Create,
            67..=78 => HOp::DropStream(k),
            79..=88 => HOp::Release,
            89..=92 => HOp::CancelAll,
            _ => HOp::Len,
        },
        Flavour::Rejections => match r {
            0..=49 => *rng.pick(&[HOp::Send, HOp::SendWith, HOp::SendAsync, HOp::Send]),
            50..=56 => HOp::Reserve,
            57..=62 => HOp::SendReserved(0),
            63..=82 => HOp::Poll(k),
            83..=93 => HOp::Release,
            _ => HOp::Len,
        },
        Flavour::WrapAround | Flavour::Teardown => {
            let _ = kind;
            match r {
                0..=34 => *rng.pick(&[HOp::Send, HOp::SendWith, HOp::SendAsync, HOp::SendDerived]),
                35..=44 => HOp::Reserve,
                45..=52 => HOp::SendReserved(if rng.chance(2, 3) { 0 } else { k }),
                53..=57 => HOp::CancelReserved(0),
                58..=79 => HOp::Poll(k),
                80..=88 => HOp::Release,
                89..=91 => HOp::Create,
                92..=94 => HOp::DropStream(k),
                _ => HOp::Len,
            }
        }
    }
}

const RESERVE_KINDS: [Kind; 5] = [Kind::UniMoveAtomic, Kind::UniZcAtomic, Kind::UniZcFullSync, Kind::MultiOgreAtomic, Kind::MultiOgreFullSync];
const C16_KINDS: [Kind; 7] = [Kind::UniMoveAtomic, Kind::UniMoveFullSync, Kind::UniMoveCrossbeam, Kind::UniZcAtomic, Kind::UniZcFullSync, Kind::MultiOgreAtomic, Kind::MultiOgreFullSync];
const LIFETIME_KINDS: [Kind; 10] = [Kind::MultiArcAtomic, Kind::MultiArcFullSync, Kind::MultiArcCrossbeam, Kind::MultiOgreAtomic, Kind::MultiOgreFullSync, Kind::MultiArcAtomic, Kind::MultiOgreAtomic, Kind::UniMoveAtomic, Kind::UniMoveFullSync, Kind::UniZcAtomic];
const WRAP_KINDS: [Kind; 10] = [Kind::UniMoveAtomic, Kind::UniMoveFullSync, Kind::UniZcAtomic, Kind::UniZcFullSync, Kind::MultiArcAtomic, Kind::MultiArcFullSync, Kind::MultiOgreAtomic, Kind::MultiOgreFullSync, Kind::UniMoveAtomic, Kind::UniZcAtomic];
const TEARDOWN_KINDS: [Kind; 10] = [Kind::UniMoveAtomic, Kind::UniMoveFullSync, Kind::UniMoveCrossbeam, Kind::UniZcAtomic, Kind::UniZcFullSync, Kind::MultiArcAtomic, Kind::MultiArcFullSync, Kind::MultiArcCrossbeam, Kind::MultiOgreAtomic, Kind::MultiOgreFullSync];

impl Scenario for Hist {
    type P = HistParams;
    fn property(&self) -> &'static str {
        self.property
    }
    fn name(&self) -> &'static str {
        match self.flavour {
            Flavour::Reservations => "reserve_hist",
            Flavour::Lifetimes => "listener_hist",
            Flavour::WrapAround => "wrap_hist",
            Flavour::Rejections => "reject_hist",
            Flavour::Teardown => "teardown_hist",
        }
    }
    fn engine(&self) -> &'static str {
        "H"
    }
    fn generate(&self, rng: &mut Rng, tier: Tier) -> HistParams {
        let kind = match self.flavour {
            Flavour::Reservations => *rng.pick(&RESERVE_KINDS),
            Flavour::Lifetimes => *rng.pick(&LIFETIME_KINDS),
            Flavour::WrapAround => *rng.pick(&WRAP_KINDS),
            Flavour::Rejections => *rng.pick(&C16_KINDS),
            Flavour::Teardown => *rng.pick(&TEARDOWN_KINDS),
        };
        let buffer = *rng.pick(&chan::BUFFERS);
        let max_streams = if kind.is_uni() && self.flavour != Flavour::Lifetimes { *rng.pick(&[1usize, 2]) } else { *rng.pick(&chan::STREAMS) };
        let max_len = match (self.flavour, tier) {
            (Flavour::Lifetimes, Tier::Thorough) => 200,
            (Flavour::Lifetimes, _) => 80,
            (_, Tier::Thorough) => 60,
            _ => 40,
        };
        let len = 1 + rng.below(max_len) as usize;
        let ops = (0..len).map(|_| draw_op(rng, self.flavour, kind)).collect();
        let window = 3 * buffer as u64 + 2;
        let other_origin = match self.flavour {
            Flavour::WrapAround => (u32::MAX - rng.below(window) as u32).wrapping_add(if rng.chance(1, 8) { buffer as u32 } else { 0 }).max(1),
            Flavour::Reservations | Flavour::Rejections => {
                if rng.chance(1, 3) {
                    u32::MAX - rng.below(window) as u32
                } else {
                    0
                }
            }
            _ => 0,
        };
        let tracked = match self.flavour {
            Flavour::Reservations => false,
            // mostly payloads with a destructor (the destruction ledger needs them); a quarter without one: storage must come
            // back all the same (a dropped listener's leftovers, a teardown), and code paths keyed on `needs_drop` differ
            Flavour::Teardown | Flavour::Lifetimes => rng.chance(3, 4),
            _ => rng.chance(1, 2),
        };
        HistParams { sched: SchedSpec { policy: Policy::Uniform, seed: rng.next(), script: vec![], weak_cas: 0, stall: 0, starvation: 64, step_cap: 2_000_000, op_step_bound: 0, origin: 0, metric_origin: 0 }, kind, buffer, max_streams, tracked, ops, other_origin, initial_streams: if self.flavour == Flavour::Lifetimes {
            rng.below(2) as usize
        } else if !kind.is_uni() && rng.chance(1, 4) {
            // a Multi without any listener: whatever is sent (also through a reserved slot) is delivered to nobody and its
            // storage is free again at once
            0
        } else {
            1
        } }
    }
    fn sched<'a>(&self, p: &'a HistParams) -> &'a SchedSpec {
        &p.sched
    }
    fn with_sched(&self, p: &HistParams, _s: SchedSpec) -> HistParams {
        p.clone()
    }
    fn execute(&self, p: &HistParams, trace: bool) -> RunOut {
        let (property, family) = (self.property, self.name());
        let p2 = p.clone();
        let (mut out, _) = run_passive(&p.sched, trace, move || history_body(&p2, property, family));
        if let Some(a) = out.aborted.clone() {
            if a.starts_with("passive_spin") && out.violations.is_empty() {
                out.violations.push(ctx::Violation { property: property.into(), oracle: "spins_forever".into(), key: format!("{}/{}/spins_forever", family, p.kind.name()), detail: format!("an operation of a single-threaded history never returns: {}", a) });
            }
        }
        out
    }
    fn shrink(&self, p: &HistParams) -> Vec<HistParams> {
        let mut out = vec![];
        // drop a suffix, a prefix half, single ops
        if p.ops.len() > 1 {
            let mut q = p.clone();
            q.ops.truncate(p.ops.len() / 2);
            out.push(q);
            let mut q = p.clone();
            q.ops.truncate(p.ops.len() - 1);
            out.push(q);
            let mut q = p.clone();
            q.ops = p.ops[p.ops.len() / 2..].to_vec();
            out.push(q);
        }
        for i in (0..p.ops.len()).rev() {
            let mut q = p.clone();
            q.ops.remove(i);
            out.push(q);
            if out.len() > 80 {
                break;
            }
        }
        if p.max_streams > 1 {
            let mut q = p.clone();
            q.max_streams = if p.max_streams == 4 { 2 } else { 1 };
            q.initial_streams = q.initial_streams.min(q.max_streams);
            out.push(q);
        }
        if p.buffer > 2 {
            let mut q = p.clone();
            q.buffer /= 2;
            out.push(q);
        }
        if p.other_origin != 0 && self.flavour != Flavour::WrapAround {
            let mut q = p.clone();
            q.other_origin = 0;
            out.push(q);
        }
        out
    }
    fn size(&self, p: &HistParams) -> u64 {
        p.ops.len() as u64 * 2 + p.buffer as u64 + p.max_streams as u64
    }
    fn nontrivial(&self, p: &HistParams, _out: &RunOut) -> bool {
        p.ops.len() >= 3
    }
    fn distinct_key(&self, p: &HistParams, _out: &RunOut) -> u64 {
        let mut h = 0xcbf29ce484222325u64;
        for b in serde_json::to_string(&(p.kind, p.buffer, p.max_streams, p.tracked, &p.ops, p.other_origin, p.initial_streams)).unwrap_or_default().bytes() {
            h = (h ^ b as u64).wrapping_mul(0x100000001b3);
        }
        h
    }
    fn components(&self) -> serde_json::Value {
        serde_json::json!({"real": ["reactive-mutiny channels, ring buffers, pool allocator, handles (/repo working tree, feature verif)"], "stub": []})
    }
    fn assumptions(&self) -> Vec<String> {
        vec![
            "single-threaded histories: every operation completes before the next starts, so the reference model is exact (no interval rule needed)".into(),
            "the movable atomic channel is driven only within its documented restrictions (no plain send while a reservation is outstanding; cancellations in reverse reservation order)".into(),
            "the Arc Multi kinds are never driven to a full listener buffer (they wait by design)".into(),
        ]
    }
}
