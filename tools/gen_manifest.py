#!/usr/bin/env python3
"""Generates /verif/MANIFEST.json from the table below (kept here so that it stays consistent)."""
import json, subprocess
ALL = ["C%02d" % i for i in range(1, 21)]
T = "deterministic simulation (seeded schedule + fault search over real code under a controlled scheduler)"
CHECKS = {
 "C03": dict(engine="T", tech=T + "; per-listener order / exactly-once / same-allocation oracle",
   text="1-2 producers (send, send_with, send_with_async, send_derived, reserve+try_send_reserved) against 1-3 executor-like listeners created before the first send, on all six Multi kinds x BUFFER_SIZE {2,4,8} x MAX_STREAMS {1,2,4}, fewer events than the buffer; oracle per listener: yielded multiset == accepted multiset, per-producer order, nothing invented, intact payload, and the same payload address across listeners.",
   note="SC memory model; the log channel maps a real file under /tmp per run.", ref="DESIGN.md §6 C03"),
 "C06": dict(engine="D", tech="deterministic simulation under virtual time (tokio current-thread runtime, paused clock), seeded workload / close-instant search",
   text="Whole Uni (5 kinds, MAX_STREAMS 1-2) and Multi (6 kinds, 1-3 listeners, optional individual flush_and_cancel_executor) objects with the four executor kinds, concurrency limits 1-4, with/without futures timeout, two instrument settings; events sent with seeded virtual gaps, per-event processing delays; close(Duration::ZERO) issued at a seeded instant; oracle evaluated in the same poll in which close() returns: every accepted event fully processed by every entitled stream, running_streams_count()==0, !is_channel_open(), nothing pending; and nothing discarded one virtual hour later.",
   note="Single current-thread runtime under virtual time; multi-threaded runtimes are not simulated. A timeout-cancelled item counts as processed.", ref="DESIGN.md §6 C06"),
 "C09": dict(engine="T", tech=T + "; total-order / partition oracle over slot addresses",
   text="1-3 publisher threads (send, send_with) on the log channel, 0-3 pre-existing events, late subscriptions (new / old+new joined / old+new split) issued by another thread at seeded instants, listeners driven like executors; oracle: one total order H = order of slot addresses, consistent with producer order; joined listener yields exactly H; split pair partitions H; new-only listener yields a suffix of H containing everything sent after the subscription returned; every yield is a gapless duplicate-free slice of H with intact payloads.",
   note="Real sparse file + mmap under /tmp per run; no kernel fault injected. SC memory model.", ref="DESIGN.md §6 C09"),
 "C11": dict(engine="D", tech="deterministic simulation under virtual time (tokio paused clock), seeded item sequences",
   text="StreamExecutor fed from a controllable stream: item sequences over {ok, error, slow (> timeout), slow-then-error} of length 0-24, the four executor kinds, all four instrument settings, concurrency limit 1-8, with/without futures timeout, seeded feed gaps; oracle: every item started, on_err exactly once per failed (not timed-out) item, timed-out futures cancelled, max in-flight <= limit at every virtual instant, and with metrics on ok+timed_out+failed == items with the expected split.",
   note="Current-thread runtime under virtual time only; item delays never equal the timeout.", ref="DESIGN.md §6 C11"),
 "C12": dict(engine="D", tech="deterministic simulation under virtual time (tokio paused clock), seeded workloads and close/cancel instants",
   text="Three scenario families: raw StreamExecutors (close callback exactly once, after the last item, status StreamEnded / ProgrammaticallyEnded only if scheduled, finish >= start), whole Unis (user close callback exactly once after all MAX_STREAMS executors finished) and Multis (each listener's callback once, after its last item; individually cancelled executors).",
   note="The sequential old->new transition of the log channel's oldies executors is not yet driven.", ref="DESIGN.md §6 C12"),
 "C17": dict(engine="T", tech=T + "; suffix/prefix/gapless oracle + pool capacity after quiescence",
   text="One producer fanning out to 2-3 listeners alive throughout while a churn thread creates and/or drops listeners mid-run on every Multi kind (MAX_STREAMS 4); scheduling points inside create_stream_id, report_stream_dropped, the live-list rebuild and the fan-out loop; oracle: throughout-listeners yield everything exactly once in order, the added one a gapless suffix, the removed one a gapless run; after everything is consumed and released BUFFER_SIZE sends are accepted again (pool kinds), classified as leaked vs held until stream-id reuse.",
   note="Events left over by an earlier holder of a stream id are C10's subject and set aside. SC memory model.", ref="DESIGN.md §6 C17"),

 "C01": dict(engine="T", tech=T + "; conservation oracle over the recorded history",
   text="Seeded search over schedules and faults: 1-3 producer threads (send, send_with, send_with_async, reserve+try_send_reserved) against 1-3 executor-like stream drivers on all five Uni kinds x BUFFER_SIZE {2,4,8} x MAX_STREAMS {1,2,4}, real channel code under a controlled scheduler (every atomic operation and instrumented plain access is a scheduling point), faults: stalls, spurious weak-CAS failures, spurious polls, waker churn, sequence counters next to the u32 wrap. Oracle: multiset of yielded ids == multiset of accepted ids, rejected inputs handed back intact and un-invoked. Sampling, not proof.",
   note="Trusted: the harness (scheduler, wakers, ledger), shuttle's coroutine runtime, SC-at-atomics memory model; weak-memory effects are not explored.", ref="DESIGN.md §6 C01"),
 "C02": dict(engine="T", tech=T + "; Wing-Gong-Lowe linearizability check against a sequential bounded FIFO",
   text="Short concurrent histories (<= 48 operations) on the five Uni channels and on the two raw ring buffers, invoke/return stamped by the simulator's global event counter, checked for linearizability against a bounded FIFO model; 'full' answers judged by the interval rule of the statement; 'never more than BUFFER_SIZE pending' and pending_items_count at quiescence checked separately.",
   note="Histories whose search exceeds 400k states are not judged (counted). SC memory model.", ref="DESIGN.md §6 C02"),
 "C04": dict(engine="T", tech=T + "; bounded liveness at quiescence (stable parked state)",
   text="Producers and executor-like stream drivers (parked on Pending, re-polled only when their waker is invoked) on every Uni kind, MAX_STREAMS {1,2} with 1..MAX_STREAMS streams, 0-3 events pending at start; verdict at quiescence: all producers returned, every driver parked without a pending wake, yet an accepted event was never yielded. One third of the runs send a lone event into an empty channel. Known findings (lost wake-ups that exist on the unchanged tree) are matched by channel / entry point / stream configuration / mechanism.",
   note="Liveness is judged only at quiescence (no timing oracle). Executor model: re-poll iff woken.", ref="DESIGN.md §6 C04"),
 "C13": dict(engine="T", tech=T + "; ownership-table oracle",
   text="2-4 threads allocating (alloc_ref, alloc_with) and deallocating (by id, by reference) on pools of 2/4/8 slots with both free-list implementations, exhaust-and-refill cycles, free-list sequence counters next to the wrap; oracle: an allocated slot is owned by nobody, owner's content intact at deallocation, failed allocation only if the pool was exhausted at some instant of the call (interval rule), exact capacity after quiescence, id<->ref bijection.",
   note="SC memory model; harness ownership table trusted.", ref="DESIGN.md §6 C13"),
 "C18": dict(engine="T", tech=T + "; Wing-Gong-Lowe linearizability check against bounded FIFO / LIFO models",
   text="2-4 threads x <= 4 operations on capacities 2/4/8 of the atomic-flag stack, the parking-lot stack (RawMutex replaced by a spin flag so that the code around it interleaves) and the two non-blocking queues; histories checked for linearizability; full/empty by the interval rule.",
   note="The 'long free-running multi-core runs' part of the quantifier is runtime monitoring, not simulation, and is not covered.", ref="DESIGN.md §6 C18"),
}
REASON_PENDING = "check under construction (see DESIGN.md §6); not claimed yet"
def main():
    commits = subprocess.run(["git","-C","/repo","log","--format=%H","--grep=^verif hooks"],capture_output=True,text=True).stdout.split()
    m = {
     "version": 1,
     "setup_cmd": "./setup.sh",
     "hooks": {
       "guard": "cargo feature `verif` of the reactive-mutiny crate (off by default)",
       "enable": "checks build /verif/sim, which depends on /verif/shadow/Cargo.toml (a shadow manifest whose [lib] path is /repo/src/lib.rs, default features = [\"verif\"], tokio with test-util); /repo/Cargo.toml and Cargo.lock are not touched by the build",
       "baseline_off_cmd": "cd /repo && cargo test --workspace --no-fail-fast --offline",
       "source_commits": list(reversed(commits)),
       "add_only": True,
     },
     "engines": [
       {"name":"T","path":"sim/src/engine_t.rs","kind_free_text":"thread-level deterministic simulator: shuttle coroutines under our own seeded scheduler, hook table installed into the crate's verif seams","serves_properties":[p for p,c in CHECKS.items() if "T" in c["engine"]]},
       {"name":"D","path":"sim/src/engine_d.rs","kind_free_text":"discrete-event time: tokio current-thread runtime with paused clock","serves_properties":[p for p,c in CHECKS.items() if "D" in c["engine"]]},
       {"name":"H","path":"sim/src/engine_h.rs","kind_free_text":"single-threaded history simulator with reference models","serves_properties":[p for p,c in CHECKS.items() if "H" in c["engine"]]},
     ],
     "checks": [],
     "not_applicable": [],
     "notes": "Deterministic simulation with fault injection; see DESIGN.md. Exit codes: 0 held (KNOWN-FINDING lines allowed), 1 VIOLATION, 2 harness/build error.",
    }
    for p in ALL:
        if p in CHECKS:
            c = CHECKS[p]
            m["checks"].append({
              "property_id": p,
              "quick_cmd": f"./check {p} quick",
              "thorough_cmd": f"./check {p} thorough",
              "evidence_file": f"/verif/evidence/{p}.json",
              "replay_cmd_template": "./check --replay {path}",
              "engine": c["engine"],
              "level_claimed": {"category": "exploration", "text": c["text"], "design_ref": c["ref"]},
              "level_note": c["note"],
              "technique": c["tech"],
            })
        else:
            m["not_applicable"].append({"property_id": p, "reason": REASON_PENDING})
    json.dump(m, open("/verif/MANIFEST.json","w"), indent=1)
    print("checks:", [c["property_id"] for c in m["checks"]])
main()
