//! Per-run simulator context (one per OS worker thread; all simulated threads of a run are coroutines on that
//! same OS thread, so a `thread_local!` is the run-global state), the hook table installed into the crate under
//! test, and the scheduling decision logic shared by the hook fast path and the shuttle `Scheduler`.

use crate::rng::Rng;
use reactive_mutiny::verif::{self, HookTable, PointKind};
use serde::{Deserialize, Serialize};
use std::cell::RefCell;
use std::collections::BTreeMap;
use std::panic::Location;
use std::time::Duration;

pub const MAX_TASKS: usize = 16;

#[derive(Clone, Debug, Serialize, Deserialize, PartialEq)]
pub enum Policy {
    /// every decision uniformly among the runnable tasks
    Uniform,
    /// stay on the running task with probability `stay`/1024, otherwise uniformly among the others
    Sticky { stay: u32 },
    /// run the current task until it blocks / spins / finishes, except at `count` pre-drawn step indices below `horizon`
    /// where another runnable task is forced (few, random preemptions -- PCT-like depth bound)
    Preempt { horizon: u32, count: u32 },
    /// follow `SchedSpec::script` literally (replay); where it is silent: keep running the current task, else lowest id
    Script,
}

/// Everything that determines the schedule and the injected low-level faults of one run
#[derive(Clone, Debug, Serialize, Deserialize)]
pub struct SchedSpec {
    pub policy: Policy,
    pub seed: u64,
    /// decision log to follow (Policy::Script)
    #[serde(default)]
    pub script: Vec<u8>,
    /// probability (per 1024) that a would-succeed `compare_exchange_weak` fails spuriously
    pub weak_cas: u32,
    /// probability (per 1024) that a task gets frozen at a scheduling point ...
    pub stall: u32,
    /// ... for up to this many decisions (also the starvation bound S: no runnable task waits longer than this)
    pub starvation: u32,
    /// whole-run step cap (harness error when exceeded, unless a scenario says a stall verdict is expected)
    pub step_cap: u64,
    /// bound on scheduling points a task may spend inside one harness-declared operation (0 = not checked)
    pub op_step_bound: u64,
    /// starting value for the sequence counters of ring buffers built during the run
    pub origin: u32,
    /// starting value for the counters of incremental-average metrics built during the run ("counter jump")
    #[serde(default)]
    pub metric_origin: u32,
}

impl SchedSpec {
    pub fn draw(rng: &mut Rng) -> Self {
        let policy = match rng.below(10) {
            0 | 1 => Policy::Uniform,
            2 => Policy::Sticky { stay: 512 },
            3 => Policy::Sticky { stay: 820 },
            4 => Policy::Sticky { stay: 960 },
            5 => Policy::Sticky { stay: 1004 },
            6 => Policy::Preempt { horizon: *rng.pick(&[40, 120, 400]), count: 1 },
            7 => Policy::Preempt { horizon: *rng.pick(&[40, 120, 400]), count: 2 },
            8 => Policy::Preempt { horizon: *rng.pick(&[40, 120, 400, 1200]), count: 3 },
            _ => Policy::Preempt { horizon: *rng.pick(&[120, 400, 1200]), count: 5 },
        };
        SchedSpec {
            policy,
            seed: rng.next(),
            script: vec![],
            weak_cas: *rng.pick(&[0, 0, 16, 64, 200]),
            stall: *rng.pick(&[0, 0, 8, 32]),
            starvation: *rng.pick(&[64, 200, 600]),
            step_cap: 100_000,
            op_step_bound: 0,
            origin: 0,
            metric_origin: 0,
        }
    }
    pub fn replaying(&self, script: Vec<u8>) -> Self {
        let mut s = self.clone();
        s.policy = Policy::Script;
        s.script = script;
        s
    }
}

#[derive(Clone, Debug, Serialize, Deserialize, PartialEq)]
pub struct Violation {
    pub property: String,
    /// which oracle fired
    pub oracle: String,
    /// structured identity used for known-finding matching: "<scenario>/<kind>/<path>/<oracle>"
    pub key: String,
    pub detail: String,
}

#[derive(Clone, Copy, PartialEq, Eq, Debug)]
pub enum Mode {
    /// inside a shuttle execution: hooks are scheduling points
    Threads,
    /// single-threaded (engines D and H): hooks only count; a spin that never ends is turned into a verdict
    Passive,
}

/// payload of the panic used to abort a run from inside a hook
pub struct SimAbort;

pub struct RunCtx {
    pub mode: Mode,
    pub spec: SchedSpec,
    pub rng: Rng,
    /// fault coins and harness-side draws: a separate stream, so that replaying a decision script (which draws nothing
    /// for scheduling) sees the same coins
    pub fault_rng: Rng,
    // ---- scheduling state
    pub steps: u64,
    pub decisions: Vec<u8>,
    pub script_pos: usize,
    pub cur: usize,
    pub stay_run: u32,
    /// how long the running task may stay before another runnable one is forced: drawn anew from [S/2, S] (S = the
    /// starvation bound) whenever the running task changes -- a fixed length would let a spinning task whose loop has a fixed
    /// period be descheduled at the same phase of its loop every time (e.g. always while it holds a spin lock)
    pub burst_limit: u32,
    pub waiting: [u32; MAX_TASKS],
    pub frozen: [u32; MAX_TASKS],
    pub preempt_points: Vec<u64>,
    pub forced_switch: bool,
    pub pending_site: u64,
    pub aborted: Option<String>,
    pub script_mismatch: u32,
    // ---- per-task operation accounting (stall verdicts)
    pub op_steps: [u64; MAX_TASKS],
    pub op_name: [&'static str; MAX_TASKS],
    /// where (hook site in the code under test / harness) each task was last seen
    pub last_site: [Option<&'static Location<'static>>; MAX_TASKS],
    pub suspended_by_scenario: u32,
    /// per task: wake-ups it delivered to a harness waker / wake attempts of it that found no waker registered
    pub task_wakes: [u32; MAX_TASKS],
    pub task_wake_misses: [u32; MAX_TASKS],
    // ---- measurements
    pub switches: u32,
    pub preemptions: u32,
    pub sig: u64,
    pub probes: BTreeMap<&'static str, u64>,
    pub faults: BTreeMap<&'static str, u64>,
    pub sim_time_ns: u64,
    pub passive_spins: u64,
    // ---- oracles' storage
    pub violations: Vec<Violation>,
    pub stamp: u64,
    pub regions: BTreeMap<u64, bool>,
    pub ledger: crate::payload::Ledger,
    pub trace: Vec<String>,
    pub trace_on: bool,
}

impl RunCtx {
    pub fn new(mode: Mode, spec: SchedSpec) -> Self {
        let mut rng = Rng::new(spec.seed);
        let fault_rng = Rng::new(spec.seed ^ 0xFA17_FA17_FA17_FA17);
        let mut preempt_points = vec![];
        if let Policy::Preempt { horizon, count } = spec.policy {
            for _ in 0..count {
                preempt_points.push(rng.below(horizon as u64));
            }
            preempt_points.sort_unstable();
        }
        RunCtx {
            mode,
            spec,
            rng,
            fault_rng,
            steps: 0,
            decisions: Vec::with_capacity(256),
            script_pos: 0,
            cur: 0,
            stay_run: 0,
            burst_limit: 0,
            waiting: [0; MAX_TASKS],
            frozen: [0; MAX_TASKS],
            preempt_points,
            forced_switch: false,
            pending_site: 0,
            aborted: None,
            script_mismatch: 0,
            op_steps: [0; MAX_TASKS],
            op_name: [""; MAX_TASKS],
            last_site: [None; MAX_TASKS],
            suspended_by_scenario: 0,
            task_wakes: [0; MAX_TASKS],
            task_wake_misses: [0; MAX_TASKS],
            switches: 0,
            preemptions: 0,
            sig: 0xcbf29ce484222325,
            probes: BTreeMap::new(),
            faults: BTreeMap::new(),
            sim_time_ns: 0,
            passive_spins: 0,
            violations: vec![],
            stamp: 0,
            regions: BTreeMap::new(),
            ledger: Default::default(),
            trace: vec![],
            trace_on: false,
        }
    }
    pub fn fault(&mut self, name: &'static str) {
        *self.faults.entry(name).or_insert(0) += 1;
    }
    pub fn violation(&mut self, property: &str, oracle: &str, key: String, detail: String) {
        if self.violations.len() < 8 {
            self.violations.push(Violation { property: property.into(), oracle: oracle.into(), key, detail });
        }
    }
    fn mix_sig(&mut self, a: u64) {
        self.sig = (self.sig ^ a).wrapping_mul(0x100000001b3);
    }
}

thread_local! {
    /// what "somebody else" does while a thread of the code under test sleeps in `std::thread::sleep()` (the thread-sleep
    /// seam): run by the sleeping thread itself inside the seam, i.e. atomically with respect to that thread -- exactly what a
    /// sleeping thread can observe of another thread's action. `(countdown, action)`: executed at the countdown-th sleep
    pub static ON_THREAD_SLEEP: RefCell<Option<(u32, Box<dyn FnOnce()>)>> = const { RefCell::new(None) };
    pub static CTX: RefCell<Option<RunCtx>> = const { RefCell::new(None) };
    pub static LAST_PANIC: RefCell<Option<String>> = const { RefCell::new(None) };
}

pub fn with_ctx<R>(f: impl FnOnce(&mut RunCtx) -> R) -> Option<R> {
    CTX.with(|c| c.borrow_mut().as_mut().map(f))
}

pub fn stamp() -> u64 {
    with_ctx(|c| {
        c.stamp += 1;
        c.stamp
    })
    .unwrap_or(0)
}

pub fn aborted() -> bool {
    with_ctx(|c| c.aborted.is_some()).unwrap_or(false)
}

pub fn trace(f: impl FnOnce() -> String) {
    with_ctx(|c| {
        if c.trace_on && c.trace.len() < 4000 {
            let s = f();
            let line = format!("[{:>5}|t{}] {}", c.steps, c.cur, s);
            c.trace.push(line);
        }
    });
}

pub fn report(property: &str, oracle: &str, key: String, detail: String) {
    with_ctx(|c| c.violation(property, oracle, key, detail));
}

pub fn fault_fired(name: &'static str) {
    with_ctx(|c| c.fault(name));
}

/// harness-side randomness (same stream as the scheduler's: one integer decides everything)
pub fn draw_below(n: u64) -> u64 {
    with_ctx(|c| c.fault_rng.below(n)).unwrap_or(0)
}

/// interns a (bounded set of) operation names built at run time, so that they can be used as `op_mark` names
pub fn intern(s: String) -> &'static str {
    use std::collections::HashSet;
    use std::sync::Mutex;
    static NAMES: Mutex<Option<HashSet<&'static str>>> = Mutex::new(None);
    let mut g = NAMES.lock().unwrap();
    let set = g.get_or_insert_with(HashSet::new);
    if let Some(k) = set.get(s.as_str()) {
        return k;
    }
    let leaked: &'static str = Box::leak(s.into_boxed_str());
    set.insert(leaked);
    leaked
}

/// Declares that the calling simulated task starts (name != "") or ends (name == "") an operation whose own
/// scheduling points are counted against `spec.op_step_bound`
pub fn op_mark(name: &'static str) {
    with_ctx(|c| {
        let t = c.cur;
        if c.trace_on && c.trace.len() < 400 && std::env::var_os("VERIF_TRACE_OPS").is_some() {
            let line = if name.is_empty() { format!("[{:>5}|t{}] op end: {} ({} own points)", c.steps, t, c.op_name[t], c.op_steps[t]) } else { format!("[{:>5}|t{}] op begin: {}", c.steps, t, name) };
            c.trace.push(line);
        }
        c.op_steps[t] = 0;
        c.op_name[t] = name;
    });
}

// =============================================================================================================
// hook table
// =============================================================================================================

enum Act {
    None,
    Switch,
    Yield,
    Abort,
}

fn current_task_index() -> usize {
    usize::from(shuttle::current::me())
}

impl RunCtx {
    /// common bookkeeping at every scheduling point of the running task; returns true if the run must be aborted
    fn account_step(&mut self) -> bool {
        self.steps += 1;
        let t = self.cur;
        if !self.op_name[t].is_empty() {
            self.op_steps[t] += 1;
            if self.spec.op_step_bound > 0 && self.op_steps[t] > self.spec.op_step_bound {
                self.aborted = Some(format!("op_step_bound: task {} spent more than {} of its own scheduling points inside `{}`", t, self.spec.op_step_bound, self.op_name[t]));
                return true;
            }
        }
        if self.steps > self.spec.step_cap {
            // attribute the cap to the task that has spent most scheduling points inside one operation of the code under
            // test (the task that happens to be running when the cap is hit may be a harness thread that merely waits)
            let (mut who, mut most) = (t, if self.op_name[t].is_empty() { 0 } else { self.op_steps[t] });
            for i in 0..MAX_TASKS {
                if !self.op_name[i].is_empty() && self.op_steps[i] > most {
                    who = i;
                    most = self.op_steps[i];
                }
            }
            self.aborted = Some(format!("step_cap: run exceeded {} scheduling points (task {} in `{}`)", self.spec.step_cap, who, self.op_name[who]));
            if self.trace_on {
                for i in 0..MAX_TASKS {
                    if let Some(l) = self.last_site[i] {
                        let line = format!("[{:>5}|t{}] at the step cap: last seen at {}:{} inside `{}` ({} own points)", self.steps, i, l.file(), l.line(), self.op_name[i], self.op_steps[i]);
                        self.trace.push(line);
                    }
                }
            }
            return true;
        }
        false
    }

    /// decision at a plain scheduling point of the running task
    fn decide_point(&mut self, loc: &'static Location<'static>) -> Act {
        if self.aborted.is_some() {
            return Act::None;
        }
        self.last_site[self.cur] = Some(loc);
        if self.account_step() {
            return Act::Abort;
        }
        match self.spec.policy {
            Policy::Script => {
                let want = self.spec.script.get(self.script_pos).copied();
                match want {
                    Some(t) if t as usize == self.cur => {
                        self.script_pos += 1;
                        self.decisions.push(t);
                        Act::None
                    }
                    Some(_) => {
                        self.note_switch_site(loc);
                        Act::Switch
                    }
                    None => {
                        self.decisions.push(self.cur as u8);
                        Act::None
                    }
                }
            }
            _ => {
                // injected stall: freeze the running task for a while
                if self.spec.stall > 0 && self.rng.below(1024) < self.spec.stall as u64 {
                    let n = 1 + self.rng.below(self.spec.starvation.max(2) as u64 - 1) as u32;
                    self.frozen[self.cur] = n;
                    self.fault("stall");
                    self.note_switch_site(loc);
                    return Act::Switch;
                }
                let stay = match self.spec.policy {
                    Policy::Uniform => false,
                    Policy::Sticky { stay } => self.rng.below(1024) < stay as u64,
                    Policy::Preempt { .. } => {
                        if self.preempt_points.first().map(|p| *p <= self.steps).unwrap_or(false) {
                            self.preempt_points.remove(0);
                            self.forced_switch = true;
                            false
                        } else {
                            true
                        }
                    }
                    Policy::Script => unreachable!(),
                };
                if self.burst_limit == 0 {
                    self.burst_limit = self.spec.starvation / 2 + self.rng.below(self.spec.starvation as u64 / 2 + 1) as u32;
                }
                if stay && self.stay_run < self.burst_limit {
                    self.stay_run += 1;
                    self.decisions.push(self.cur as u8);
                    for (i, w) in self.waiting.iter_mut().enumerate() {
                        if i != self.cur && *w > 0 {
                            *w += 1;
                        }
                    }
                    Act::None
                } else {
                    self.note_switch_site(loc);
                    Act::Switch
                }
            }
        }
    }

    fn note_switch_site(&mut self, loc: &'static Location<'static>) {
        // remembered so that the scheduler can fold (task, site) into the context-switch signature if the task really changes
        self.pending_site = (loc.line() as u64) << 32 ^ (loc.file().len() as u64) << 20 ^ loc.column() as u64;
        let mut h = 0u64;
        for b in loc.file().bytes().rev().take(24) {
            h = h.wrapping_mul(131).wrapping_add(b as u64);
        }
        self.pending_site ^= h << 7;
    }

    /// the scheduler's choice among `runnable` (task indices, ascending); `yielding`: the current task asked to be deprioritised
    pub fn choose(&mut self, runnable: &[usize], current: Option<usize>, yielding: bool) -> Option<usize> {
        if self.aborted.is_some() {
            return None;
        }
        let cur_runnable = current.map(|c| runnable.contains(&c)).unwrap_or(false);
        let chosen = match self.spec.policy {
            Policy::Script => {
                let want = self.spec.script.get(self.script_pos).copied();
                self.script_pos += 1;
                match want {
                    Some(t) if runnable.contains(&(t as usize)) => t as usize,
                    other => {
                        if other.is_some() {
                            self.script_mismatch += 1;
                        }
                        // default: keep running the current task unless it asked to yield; else lowest id
                        if cur_runnable && !yielding {
                            current.unwrap()
                        } else {
                            *runnable.iter().find(|t| Some(**t) != current).unwrap_or(&runnable[0])
                        }
                    }
                }
            }
            _ => {
                // candidates: not frozen (unless all are), and not the yielding task (unless alone)
                let mut cands: Vec<usize> = runnable.iter().copied().filter(|t| self.frozen[*t] == 0).collect();
                if cands.is_empty() {
                    cands = runnable.to_vec();
                }
                if yielding || self.forced_switch {
                    if let Some(c) = current {
                        if cands.len() > 1 {
                            cands.retain(|t| *t != c);
                        }
                    }
                }
                self.forced_switch = false;
                // starvation bound: a runnable task that waited too long goes first
                let starving = cands.iter().copied().filter(|t| self.waiting[*t] > self.spec.starvation).max_by_key(|t| self.waiting[*t]);
                if let Some(t) = starving {
                    t
                } else {
                    match self.spec.policy {
                        Policy::Preempt { .. } => {
                            // keep the current one if it can go on; otherwise a random other
                            if let Some(c) = current.filter(|c| cands.contains(c)) {
                                c
                            } else {
                                cands[self.rng.below(cands.len() as u64) as usize]
                            }
                        }
                        Policy::Sticky { .. } => {
                            // the hook already decided to leave the current task (or it blocked): pick among the others
                            let others: Vec<usize> = cands.iter().copied().filter(|t| Some(*t) != current).collect();
                            if others.is_empty() {
                                cands[0]
                            } else {
                                others[self.rng.below(others.len() as u64) as usize]
                            }
                        }
                        _ => cands[self.rng.below(cands.len() as u64) as usize],
                    }
                }
            }
        };
        // bookkeeping
        for t in runnable {
            if *t != chosen {
                self.waiting[*t] = self.waiting[*t].saturating_add(1).max(1);
            }
        }
        self.waiting[chosen] = 0;
        for f in self.frozen.iter_mut() {
            if *f > 0 {
                *f -= 1;
            }
        }
        self.decisions.push(chosen as u8);
        if Some(chosen) != current {
            self.switches += 1;
            if cur_runnable && !yielding {
                self.preemptions += 1;
                let site = self.pending_site;
                self.mix_sig(site ^ ((current.unwrap_or(0) as u64) << 56) ^ ((chosen as u64) << 48));
            } else {
                self.mix_sig(0x9E37 ^ ((current.unwrap_or(15) as u64) << 8) ^ chosen as u64);
            }
            self.stay_run = 0;
            self.burst_limit = 0;
        }
        self.pending_site = 0;
        self.cur = chosen;
        Some(chosen)
    }
}

/// Stops the run from harness code (never call from a destructor): the calling simulated thread unwinds, nobody else runs again
pub fn abort_run(reason: String) -> ! {
    with_ctx(|c| {
        if c.aborted.is_none() {
            c.aborted = Some(reason);
        }
    });
    abort_now()
}

fn abort_now() -> ! {
    std::panic::resume_unwind(Box::new(SimAbort));
}

fn hook_sched_point(_kind: PointKind, loc: &'static Location<'static>) {
    let act = CTX.with(|c| {
        let mut b = c.borrow_mut();
        match b.as_mut() {
            None => Act::None,
            Some(ctx) => match ctx.mode {
                Mode::Passive => {
                    ctx.steps += 1;
                    Act::None
                }
                Mode::Threads => {
                    debug_assert_eq!(ctx.cur, current_task_index());
                    ctx.decide_point(loc)
                }
            },
        }
    });
    match act {
        Act::None => {}
        Act::Switch => shuttle::thread::sleep(Duration::ZERO),
        Act::Yield => shuttle::thread::yield_now(),
        Act::Abort => abort_now(),
    }
}

fn hook_spin_hint(loc: &'static Location<'static>) {
    let act = CTX.with(|c| {
        let mut b = c.borrow_mut();
        match b.as_mut() {
            None => Act::None,
            Some(ctx) => match ctx.mode {
                Mode::Passive => {
                    ctx.passive_spins += 1;
                    if ctx.passive_spins > 20_000 && ctx.aborted.is_none() {
                        ctx.aborted = Some(format!("passive_spin: a single-threaded history spins forever at {}:{}", loc.file(), loc.line()));
                        Act::Abort
                    } else {
                        Act::None
                    }
                }
                Mode::Threads => {
                    if ctx.aborted.is_some() {
                        return Act::None;
                    }
                    let t = ctx.cur;
                    ctx.last_site[t] = Some(loc);
                    if ctx.account_step() {
                        return Act::Abort;
                    }
                    ctx.note_switch_site(loc);
                    Act::Yield
                }
            },
        }
    });
    match act {
        Act::None | Act::Switch => {}
        Act::Yield => shuttle::thread::yield_now(),
        Act::Abort => abort_now(),
    }
}

fn hook_weak_cas_fails(_loc: &'static Location<'static>) -> bool {
    with_ctx(|ctx| {
        if ctx.aborted.is_some() || ctx.spec.weak_cas == 0 {
            return false;
        }
        if ctx.fault_rng.below(1024) < ctx.spec.weak_cas as u64 {
            ctx.fault("weak_cas_spurious");
            true
        } else {
            false
        }
    })
    .unwrap_or(false)
}

fn hook_probe(name: &'static str) {
    with_ctx(|ctx| {
        let n = ctx.probes.entry(name).or_insert(0);
        *n += 1;
        if ctx.trace_on && *n <= 3 && ctx.trace.len() < 4000 {
            let line = format!("[{:>5}|t{}] probe {} (#{})", ctx.steps, ctx.cur, name, *n);
            ctx.trace.push(line);
        }
        if name == "streams_manager.wake_stream.retried_under_lock" {
            let t = ctx.cur;
            ctx.task_wake_misses[t] += 1;
        }
    });
}

/// (wake-ups delivered, wake attempts that found no waker) by the calling simulated task so far
pub fn my_wake_counters() -> (u32, u32) {
    with_ctx(|c| (c.task_wakes[c.cur], c.task_wake_misses[c.cur])).unwrap_or((0, 0))
}

fn hook_sequence_origin() -> u32 {
    with_ctx(|ctx| ctx.spec.origin).unwrap_or(0)
}

fn hook_sleep(d: Duration) -> bool {
    let r = CTX.with(|c| {
        let mut b = c.borrow_mut();
        match b.as_mut() {
            None => None,
            Some(ctx) => {
                ctx.sim_time_ns += d.as_nanos() as u64;
                Some(ctx.mode)
            }
        }
    });
    match r {
        None => false,
        Some(Mode::Passive) => {
            // engines D/H: engine D wants tokio's (paused) clock to do the sleeping
            false
        }
        Some(Mode::Threads) => {
            // simulated time advanced; behave like a spin: let the others run
            hook_spin_hint(Location::caller());
            true
        }
    }
}

/// `std::thread::sleep()` inside the code under test (the Arc Multi channels' wait for a full listener)
fn hook_thread_sleep(d: Duration) -> bool {
    let r = CTX.with(|c| {
        let mut b = c.borrow_mut();
        match b.as_mut() {
            None => None,
            Some(ctx) => {
                ctx.sim_time_ns += d.as_nanos() as u64;
                Some(ctx.mode)
            }
        }
    });
    match r {
        None => false,
        Some(Mode::Passive) => {
            // single-threaded engines: nobody else can run while this thread sleeps, so a sleep-and-retry loop that does
            // not end is a spin that does not end: simulated (no real sleep) and counted towards the spin verdict
            let abort = with_ctx(|ctx| {
                ctx.passive_spins += 2_000;
                if ctx.passive_spins > 20_000 && ctx.aborted.is_none() {
                    ctx.aborted = Some("passive_spin: a single-threaded history sleeps and retries forever (std::thread::sleep seam)".to_string());
                    true
                } else {
                    false
                }
            })
            .unwrap_or(false);
            if abort {
                abort_now();
            }
            true
        }
        Some(Mode::Threads) => {
            let action = ON_THREAD_SLEEP.with(|a| {
                let mut a = a.borrow_mut();
                match a.as_mut() {
                    Some((n, _)) if *n > 1 => {
                        *n -= 1;
                        None
                    }
                    Some(_) => a.take().map(|(_, f)| f),
                    None => None,
                }
            });
            if let Some(f) = action {
                f();
            }
            hook_spin_hint(Location::caller());
            true
        }
    }
}

/// see `ON_THREAD_SLEEP`
pub fn set_thread_sleep_action(nth: u32, f: Box<dyn FnOnce()>) {
    ON_THREAD_SLEEP.with(|a| *a.borrow_mut() = Some((nth.max(1), f)));
}

pub fn clear_thread_sleep_action() -> bool {
    ON_THREAD_SLEEP.with(|a| a.borrow_mut().take().is_some())
}

fn hook_metric_origin() -> u32 {
    with_ctx(|ctx| ctx.spec.metric_origin).unwrap_or(0)
}

fn hook_region(event: u8, id: u64, what: &'static str) {
    with_ctx(|ctx| match event {
        0 => {
            ctx.regions.insert(id, true);
        }
        1 => {
            ctx.regions.insert(id, false);
        }
        _ => {
            if let Some(false) = ctx.regions.get(&id) {
                ctx.violation("C05", "region_used_after_drop", format!("region/{}", what), format!("{} called on an allocator that was already dropped (region #{})", what, id));
            }
        }
    });
}

pub fn install_hooks() {
    static ONCE: std::sync::Once = std::sync::Once::new();
    ONCE.call_once(|| {
        verif::install(HookTable {
            sched_point: hook_sched_point,
            spin_hint: hook_spin_hint,
            weak_cas_fails: hook_weak_cas_fails,
            probe: hook_probe,
            sequence_origin: hook_sequence_origin,
            sleep: hook_sleep,
            region: hook_region,
            thread_sleep: hook_thread_sleep,
            metric_origin: hook_metric_origin,
        });
        // shuttle installs its own (noisy) panic hook on its first execution, once: trigger that now, then replace it
        {
            let runner = shuttle::Runner::new(shuttle::scheduler::RandomScheduler::new(1), shuttle::Config::new());
            runner.run(|| {});
        }
        std::panic::set_hook(Box::new(|info| {
            if info.payload().downcast_ref::<SimAbort>().is_some() {
                return;
            }
            let msg = if let Some(s) = info.payload().downcast_ref::<&str>() {
                s.to_string()
            } else if let Some(s) = info.payload().downcast_ref::<String>() {
                s.clone()
            } else {
                "<non-string panic payload>".to_string()
            };
            let loc = info.location().map(|l| format!("{}:{}", l.file(), l.line())).unwrap_or_default();
            if std::env::var_os("VERIF_VERBOSE").is_some() {
                eprintln!("[panic] {} @ {}", msg, loc);
            }
            LAST_PANIC.with(|p| {
                let mut p = p.borrow_mut();
                if p.is_none() {
                    *p = Some(format!("{} @ {}", msg, loc));
                }
            });
        }));
    });
}

/// a harness-level scheduling point (e.g. inside harness wakers, between harness steps)
#[track_caller]
pub fn harness_point() {
    hook_sched_point(PointKind::Plain, Location::caller());
}

/// harness-level "let the others run"
#[track_caller]
pub fn harness_yield() {
    hook_spin_hint(Location::caller());
}
