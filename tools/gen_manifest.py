#!/usr/bin/env python3
"""Generates /verif/MANIFEST.json from the table below (kept here so that it stays consistent)."""
import json, subprocess
ALL = ["C%02d" % i for i in range(1, 21)]
T = "deterministic simulation (seeded schedule + fault search over real code under a controlled scheduler)"
CHECKS = {
 "C01": dict(engine="T", tech=T + "; conservation oracle over the recorded history",
   text="Seeded search over schedules and faults: 1-3 producer threads (send, send_with, send_with_async, reserve+try_send_reserved) against 1-3 executor-like stream drivers on all five Uni kinds x BUFFER_SIZE {2,4,8} x MAX_STREAMS {1,2,4}, real channel code under a controlled scheduler (every atomic operation and instrumented plain access is a scheduling point), faults: stalls, spurious weak-CAS failures, spurious polls, waker churn, sequence counters next to the u32 wrap. Oracle: multiset of yielded ids == multiset of accepted ids, rejected inputs handed back intact and un-invoked. Sampling, not proof.",
   note="Trusted: the harness (scheduler, wakers, ledger), shuttle's coroutine runtime, SC-at-atomics memory model; weak-memory effects are not explored.", ref="DESIGN.md §6 C01"),
 "C02": dict(engine="T", tech=T + "; Wing-Gong-Lowe linearizability check against a sequential bounded FIFO",
   text="Short concurrent histories (<= 48 operations) on the five Uni channels and on the two raw ring buffers, invoke/return stamped by the simulator's global event counter, checked for linearizability against a bounded FIFO model; 'full' answers judged by the interval rule of the statement; 'never more than BUFFER_SIZE pending' and pending_items_count at quiescence checked separately.",
   note="Histories whose search exceeds 400k states are not judged (counted). SC memory model.", ref="DESIGN.md §6 C02"),
 "C04": dict(engine="T", tech=T + "; bounded liveness at quiescence (stable parked state)",
   text="Producers and executor-like stream drivers (parked on Pending, re-polled only when their waker is invoked) on every Uni kind, MAX_STREAMS {1,2} with 1..MAX_STREAMS streams, 0-3 events pending at start; verdict at quiescence: all producers returned, every driver parked without a pending wake, yet an accepted event was never yielded. One third of the runs send a lone event into an empty channel. Known findings (lost wake-ups that exist on the unchanged tree) are matched by channel / entry point / stream configuration / mechanism.",
   note="Liveness is judged only at quiescence (no timing oracle). Executor model: re-poll iff woken.", ref="DESIGN.md §6 C04"),
 "C13": dict(engine="T", tech=T + "; ownership-table oracle",
   text="2-4 threads allocating (alloc_ref, alloc_with) and deallocating (by id, by reference) on pools of 2/4/8 slots with both free-list implementations, exhaust-and-refill cycles, free-list sequence counters next to the wrap; oracle: an allocated slot is owned by nobody, owner's content intact at deallocation, failed allocation only if the pool was exhausted at some instant of the call (interval rule), exact capacity after quiescence, id<->ref bijection.",
   note="SC memory model; harness ownership table trusted.", ref="DESIGN.md §6 C13"),
 "C18": dict(engine="T", tech=T + "; Wing-Gong-Lowe linearizability check against bounded FIFO / LIFO models",
   text="2-4 threads x <= 4 operations on capacities 2/4/8 of the atomic-flag stack, the parking-lot stack (RawMutex replaced by a spin flag so that the code around it interleaves) and the two non-blocking queues; histories checked for linearizability; full/empty by the interval rule.",
   note="The 'long free-running multi-core runs' part of the quantifier is runtime monitoring, not simulation, and is not covered.", ref="DESIGN.md §6 C18"),
}
REASON_PENDING = "check under construction (see DESIGN.md §6); not claimed yet"
def main():
    commits = subprocess.run(["git","-C","/repo","log","--format=%H","--grep=^verif hooks"],capture_output=True,text=True).stdout.split()
    m = {
     "version": 1,
     "setup_cmd": "./setup.sh",
     "hooks": {
       "guard": "cargo feature `verif` of the reactive-mutiny crate (off by default)",
       "enable": "checks build /verif/sim, which depends on /verif/shadow/Cargo.toml (a shadow manifest whose [lib] path is /repo/src/lib.rs, default features = [\"verif\"], tokio with test-util); /repo/Cargo.toml and Cargo.lock are not touched by the build",
       "baseline_off_cmd": "cd /repo && cargo test --workspace --no-fail-fast --offline",
       "source_commits": list(reversed(commits)),
       "add_only": True,
     },
     "engines": [
       {"name":"T","path":"sim/src/engine_t.rs","kind_free_text":"thread-level deterministic simulator: shuttle coroutines under our own seeded scheduler, hook table installed into the crate's verif seams","serves_properties":[p for p,c in CHECKS.items() if "T" in c["engine"]]},
       {"name":"D","path":"sim/src/engine_d.rs","kind_free_text":"discrete-event time: tokio current-thread runtime with paused clock","serves_properties":[p for p,c in CHECKS.items() if "D" in c["engine"]]},
       {"name":"H","path":"sim/src/engine_h.rs","kind_free_text":"single-threaded history simulator with reference models","serves_properties":[p for p,c in CHECKS.items() if "H" in c["engine"]]},
     ],
     "checks": [],
     "not_applicable": [],
     "notes": "Deterministic simulation with fault injection; see DESIGN.md. Exit codes: 0 held (KNOWN-FINDING lines allowed), 1 VIOLATION, 2 harness/build error.",
    }
    for p in ALL:
        if p in CHECKS:
            c = CHECKS[p]
            m["checks"].append({
              "property_id": p,
              "quick_cmd": f"./check {p} quick",
              "thorough_cmd": f"./check {p} thorough",
              "evidence_file": f"/verif/evidence/{p}.json",
              "replay_cmd_template": "./check --replay {path}",
              "engine": c["engine"],
              "level_claimed": {"category": "exploration", "text": c["text"], "design_ref": c["ref"]},
              "level_note": c["note"],
              "technique": c["tech"],
            })
        else:
            m["not_applicable"].append({"property_id": p, "reason": REASON_PENDING})
    json.dump(m, open("/verif/MANIFEST.json","w"), indent=1)
    print("checks:", [c["property_id"] for c in m["checks"]])
main()
