#!/bin/bash
# tools/all_thorough.sh <budget_s> [<Cxx> ...] : runs the thorough tier of the checks (all 20 by default) with the given wall-clock
# budget per check against /repo as it is; one summary line per property. Triage helper, never a registered check.
cd "$(dirname "$0")/.." || exit 2
B="${1:-300}"; shift
PROPS="$*"; [ -z "$PROPS" ] && PROPS="C01 C02 C03 C04 C05 C06 C07 C08 C09 C10 C11 C12 C13 C14 C15 C16 C17 C18 C19 C20"
for p in $PROPS; do
  VERIF_BUDGET_S=$B ./check $p thorough > /tmp/allt_$p.log 2>&1; E=$?
  echo "ALLT $p exit=$E $(grep -E "^$p thorough: [0-9]" /tmp/allt_$p.log | tail -1) $(grep -E '^VIOLATION|HARNESS-ERROR' /tmp/allt_$p.log | head -3 | tr '\n' ' ')"
done
