//! Harness-side machinery shared by the engine-T scenarios: arena-backed wakers with liveness accounting, stream
//! driver state (park / wake tokens), quiescence detection, and a poll loop for futures on a simulated thread.

use crate::ctx::{self, harness_point, harness_yield};
use std::cell::{Cell, RefCell};
use std::future::Future;
use std::pin::Pin;
use std::task::{Context, Poll, RawWaker, RawWakerVTable, Waker};

pub const MAX_DRIVERS: usize = 8;

#[derive(Default)]
pub struct DriverState {
    pub token: Cell<bool>,
    pub parked: Cell<bool>,
    pub done: Cell<bool>,
    pub stop: Cell<bool>,
    pub wakes: Cell<u64>,
    pub polls: Cell<u64>,
    pub thread: RefCell<Option<shuttle::thread::Thread>>,
}

/// One cell per (driver, waker variant). Never freed: a `Waker` left inside a leaked channel stays valid memory.
pub struct WakerCell {
    driver: Cell<usize>,
    handles: Cell<i64>,
    generation: Cell<u64>,
}

struct Tls {
    drivers: Vec<DriverState>,
    cells: Vec<Box<WakerCell>>,
    cells_used: usize,
    generation: u64,
}

thread_local! {
    static TLS: RefCell<Tls> = RefCell::new(Tls { drivers: (0..MAX_DRIVERS).map(|_| DriverState::default()).collect(), cells: vec![], cells_used: 0, generation: 0 });
    static DRIVERS_USED: Cell<usize> = const { Cell::new(0) };
}

/// to be called at the start of every run
pub fn reset() {
    TLS.with(|t| {
        let mut t = t.borrow_mut();
        t.generation += 1;
        t.cells_used = 0;
        for d in t.drivers.iter_mut() {
            *d = DriverState::default();
        }
    });
    DRIVERS_USED.with(|d| d.set(0));
}

pub fn new_driver() -> usize {
    DRIVERS_USED.with(|d| {
        let idx = d.get();
        assert!(idx < MAX_DRIVERS);
        d.set(idx + 1);
        idx
    })
}

pub fn drivers_used() -> usize {
    DRIVERS_USED.with(|d| d.get())
}

pub fn with_driver<R>(idx: usize, f: impl FnOnce(&DriverState) -> R) -> R {
    TLS.with(|t| f(&t.borrow().drivers[idx]))
}

static VTABLE: RawWakerVTable = RawWakerVTable::new(w_clone, w_wake, w_wake_by_ref, w_drop);

fn cell<'a>(p: *const ()) -> &'a WakerCell {
    unsafe { &*(p as *const WakerCell) }
}

unsafe fn w_clone(p: *const ()) -> RawWaker {
    let c = cell(p);
    c.handles.set(c.handles.get() + 1);
    RawWaker::new(p, &VTABLE)
}

fn do_wake(p: *const ()) {
    // the window between "the caller read the waker out of its slot" and "the waker's memory is used"
    harness_point();
    let c = cell(p);
    let current_generation = TLS.with(|t| t.borrow().generation);
    if c.generation.get() != current_generation {
        return; // a waker of an earlier (aborted, leaked) run
    }
    if c.handles.get() <= 0 {
        ctx::report(
            "C05",
            "waker_used_after_release",
            "waker/used_after_release".into(),
            format!("a stream waker (driver {}) was invoked after every handle to it had been dropped (bookkeeping memory used after it was freed)", c.driver.get()),
        );
        return;
    }
    ctx::with_ctx(|x| {
        let t = x.cur;
        x.task_wakes[t] += 1;
    });
    let thread = with_driver(c.driver.get(), |d| {
        d.wakes.set(d.wakes.get() + 1);
        d.token.set(true);
        d.thread.borrow().clone()
    });
    if let Some(thread) = thread {
        if !ctx::aborted() && ctx::with_ctx(|c| c.mode == ctx::Mode::Threads).unwrap_or(false) {
            thread.unpark();
        }
    }
}

unsafe fn w_wake(p: *const ()) {
    do_wake(p);
    w_drop(p);
}

unsafe fn w_wake_by_ref(p: *const ()) {
    do_wake(p);
}

unsafe fn w_drop(p: *const ()) {
    let c = cell(p);
    c.handles.set(c.handles.get() - 1);
}

/// A fresh waker (its own liveness count) that wakes `driver`
pub fn waker_for(driver: usize) -> Waker {
    let ptr = TLS.with(|t| {
        let mut t = t.borrow_mut();
        let idx = t.cells_used;
        if idx == t.cells.len() {
            t.cells.push(Box::new(WakerCell { driver: Cell::new(0), handles: Cell::new(0), generation: Cell::new(0) }));
        }
        t.cells_used += 1;
        let generation = t.generation;
        let c = &t.cells[idx];
        c.driver.set(driver);
        c.handles.set(1);
        c.generation.set(generation);
        &**c as *const WakerCell as *const ()
    });
    unsafe { Waker::from_raw(RawWaker::new(ptr, &VTABLE)) }
}

/// harness-side wake (flush): as if an executor decided to poll again
pub fn kick(driver: usize) {
    let thread = with_driver(driver, |d| {
        d.token.set(true);
        d.thread.borrow().clone()
    });
    if let Some(thread) = thread {
        thread.unpark();
    }
}

pub fn register_current_thread(driver: usize) {
    with_driver(driver, |d| *d.thread.borrow_mut() = Some(shuttle::thread::current()));
}

/// Blocks the calling simulated thread until its wake token is set (or it is told to stop). Returns false if stopped.
pub fn park_until_woken(driver: usize) -> bool {
    with_driver(driver, |d| d.parked.set(true));
    loop {
        let (token, stop) = with_driver(driver, |d| (d.token.get(), d.stop.get()));
        if token || stop || ctx::aborted() {
            with_driver(driver, |d| {
                d.parked.set(false);
                d.token.set(false);
            });
            return !stop;
        }
        shuttle::thread::park();
    }
}

pub fn take_token(driver: usize) -> bool {
    with_driver(driver, |d| d.token.replace(false))
}

pub fn mark_done(driver: usize) {
    with_driver(driver, |d| {
        d.done.set(true);
        d.parked.set(false);
    });
}

pub fn stop_driver(driver: usize) {
    let thread = with_driver(driver, |d| {
        d.stop.set(true);
        d.thread.borrow().clone()
    });
    if let Some(thread) = thread {
        thread.unpark();
    }
}

/// true when every listed driver is finished or parked without a pending wake token: nobody is left who could call wake
pub fn all_quiescent(drivers: &[usize]) -> bool {
    drivers.iter().all(|d| with_driver(*d, |s| s.done.get() || (s.parked.get() && !s.token.get())))
}

/// The orchestrator's wait: yields until the listed drivers are quiescent (they can only get there by themselves)
pub fn wait_quiescent(drivers: &[usize]) {
    let mut spins = 0u64;
    while !all_quiescent(drivers) {
        if ctx::aborted() {
            return;
        }
        harness_yield();
        spins += 1;
        if spins > 100_000 {
            panic!("harness: wait_quiescent never settled");
        }
    }
}

/// Polls `fut` to completion on the calling simulated thread (a private mini-executor: re-polls in a loop, with a
/// scheduling point between polls). `on_pending` is called after every `Pending`; returning false abandons the future
/// (it is dropped: cancellation).
pub fn block_on_sim<R>(mut fut: Pin<Box<dyn Future<Output = R> + Send>>, mut on_pending: impl FnMut(u32) -> bool) -> Option<R> {
    let waker = futures::task::noop_waker();
    let mut cx = Context::from_waker(&waker);
    let mut polls = 0u32;
    loop {
        match fut.as_mut().poll(&mut cx) {
            Poll::Ready(r) => return Some(r),
            Poll::Pending => {
                polls += 1;
                if !on_pending(polls) {
                    return None;
                }
                if ctx::aborted() {
                    std::mem::forget(fut);
                    return None;
                }
                harness_yield();
            }
        }
    }
}

/// Harness-side shared state: an uncontended lock by construction (one simulated thread runs at a time and the guard
/// is never held across a scheduling point) -- a contended acquisition is a harness bug and panics instead of deadlocking.
pub struct HLock<T>(std::sync::Mutex<T>);

impl<T> HLock<T> {
    pub fn new(v: T) -> Self {
        HLock(std::sync::Mutex::new(v))
    }
    #[allow(clippy::result_unit_err)]
    pub fn lock(&self) -> Result<std::sync::MutexGuard<'_, T>, ()> {
        match self.0.try_lock() {
            Ok(g) => Ok(g),
            Err(std::sync::TryLockError::Poisoned(p)) => Ok(p.into_inner()),
            Err(std::sync::TryLockError::WouldBlock) => panic!("harness: a harness lock was held across a scheduling point"),
        }
    }
}
