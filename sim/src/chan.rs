//! Object-safe façade over the Uni and Multi channels of the crate under test, so that scenario code is written
//! once and only this thin layer is instantiated for the (kind x BUFFER_SIZE x MAX_STREAMS) grid.
//! All code of the channels themselves is the real code of /repo.

use crate::ctx;
use crate::engine_t::Guarded;
use crate::payload::Payload;
use futures::Stream;
use reactive_mutiny::prelude::advanced::*;
use reactive_mutiny::types::{ChannelCommon, ChannelConsumer, ChannelMulti, ChannelProducer, ChannelUni};
use serde::{Deserialize, Serialize};
use std::future::Future;
use std::pin::Pin;
use std::sync::atomic::{AtomicBool, AtomicU32, Ordering};
use std::sync::Arc;
use std::task::{Context, Poll};
use std::time::Duration;

#[derive(Clone, Copy, Debug, PartialEq, Eq, Serialize, Deserialize, PartialOrd, Ord, Hash)]
pub enum Kind {
    UniMoveAtomic,
    UniMoveFullSync,
    UniMoveCrossbeam,
    UniZcAtomic,
    UniZcFullSync,
    MultiArcAtomic,
    MultiArcFullSync,
    MultiArcCrossbeam,
    MultiOgreAtomic,
    MultiOgreFullSync,
    MultiMmapLog,
}

pub const UNI_KINDS: [Kind; 5] = [Kind::UniMoveAtomic, Kind::UniMoveFullSync, Kind::UniMoveCrossbeam, Kind::UniZcAtomic, Kind::UniZcFullSync];
pub const MULTI_KINDS: [Kind; 6] = [Kind::MultiArcAtomic, Kind::MultiArcFullSync, Kind::MultiArcCrossbeam, Kind::MultiOgreAtomic, Kind::MultiOgreFullSync, Kind::MultiMmapLog];
pub const MULTI_KINDS_NO_LOG: [Kind; 5] = [Kind::MultiArcAtomic, Kind::MultiArcFullSync, Kind::MultiArcCrossbeam, Kind::MultiOgreAtomic, Kind::MultiOgreFullSync];

impl Kind {
    pub fn name(self) -> &'static str {
        match self {
            Kind::UniMoveAtomic => "uni.movable.atomic",
            Kind::UniMoveFullSync => "uni.movable.full_sync",
            Kind::UniMoveCrossbeam => "uni.movable.crossbeam",
            Kind::UniZcAtomic => "uni.zero_copy.atomic",
            Kind::UniZcFullSync => "uni.zero_copy.full_sync",
            Kind::MultiArcAtomic => "multi.arc.atomic",
            Kind::MultiArcFullSync => "multi.arc.full_sync",
            Kind::MultiArcCrossbeam => "multi.arc.crossbeam",
            Kind::MultiOgreAtomic => "multi.ogre_arc.atomic",
            Kind::MultiOgreFullSync => "multi.ogre_arc.full_sync",
            Kind::MultiMmapLog => "multi.mmap_log",
        }
    }
    pub fn is_uni(self) -> bool {
        matches!(self, Kind::UniMoveAtomic | Kind::UniMoveFullSync | Kind::UniMoveCrossbeam | Kind::UniZcAtomic | Kind::UniZcFullSync)
    }
    pub fn is_zero_copy(self) -> bool {
        matches!(self, Kind::UniZcAtomic | Kind::UniZcFullSync)
    }
    pub fn supports_reserve(self) -> bool {
        matches!(self, Kind::UniMoveAtomic | Kind::UniZcAtomic | Kind::UniZcFullSync | Kind::MultiOgreAtomic | Kind::MultiOgreFullSync)
    }
    /// multi kinds that reject (instead of waiting) when their pool is exhausted
    pub fn is_ogre_multi(self) -> bool {
        matches!(self, Kind::MultiOgreAtomic | Kind::MultiOgreFullSync)
    }
    pub fn is_arc_multi(self) -> bool {
        matches!(self, Kind::MultiArcAtomic | Kind::MultiArcFullSync | Kind::MultiArcCrossbeam)
    }
    pub fn supports_async_send(self) -> bool {
        // the log channel's `leak_slot()` is `todo!()` upstream
        !matches!(self, Kind::MultiMmapLog)
    }
}

#[derive(Clone, Copy, Debug, PartialEq, Eq)]
pub enum SendOutcome {
    Accepted,
    /// rejected because the buffer was full: was the input handed back intact, and was the setter ever invoked?
    Rejected { returned_intact: bool, setter_invoked: bool },
    Fatal,
}

impl SendOutcome {
    pub fn accepted(self) -> bool {
        matches!(self, SendOutcome::Accepted)
    }
}

/// A payload handle as seen by a consumer: the moved value itself, an `OgreUnique`, an `Arc`, an `OgreArc` or a `&'static`
pub trait HandleDyn: Send {
    fn id(&self) -> u32;
    fn intact(&self) -> bool;
    fn addr(&self) -> usize;
    fn try_clone(&self) -> Option<Box<dyn HandleDyn>>;
    fn refcount(&self) -> Option<u32>;
    /// zero-copy uni: converts the unique handle into a shared one
    fn into_shared(self: Box<Self>) -> Box<dyn HandleDyn>;
    /// OgreArc only: `increment_references(n)` followed by n `raw_copy()`s (with a scheduling point between the two steps)
    fn bulk_copies(&self, _n: u32) -> Vec<Box<dyn HandleDyn>> {
        vec![]
    }
    fn is_unique(&self) -> bool {
        false
    }
}

pub trait IntoHandle: Send + 'static {
    fn into_handle(self) -> Box<dyn HandleDyn>;
}

struct ValueHandle<T: Payload>(Guarded<Box<T>>);
impl<T: Payload> HandleDyn for ValueHandle<T> {
    fn id(&self) -> u32 {
        self.0.id()
    }
    fn intact(&self) -> bool {
        self.0.intact()
    }
    fn addr(&self) -> usize {
        0
    }
    fn try_clone(&self) -> Option<Box<dyn HandleDyn>> {
        None
    }
    fn refcount(&self) -> Option<u32> {
        None
    }
    fn into_shared(self: Box<Self>) -> Box<dyn HandleDyn> {
        self
    }
}
impl IntoHandle for crate::payload::Tracked {
    fn into_handle(self) -> Box<dyn HandleDyn> {
        Box::new(ValueHandle(Guarded::new(Box::new(self))))
    }
}
impl IntoHandle for crate::payload::Plain {
    fn into_handle(self) -> Box<dyn HandleDyn> {
        Box::new(ValueHandle(Guarded::new(Box::new(self))))
    }
}

struct UniqueHandle<T: Payload, A: BoundedOgreAllocator<T> + Send + Sync + 'static>(Guarded<OgreUnique<T, A>>);
impl<T: Payload, A: BoundedOgreAllocator<T> + Send + Sync + 'static> HandleDyn for UniqueHandle<T, A> {
    fn id(&self) -> u32 {
        (**self.0).id()
    }
    fn intact(&self) -> bool {
        (**self.0).intact()
    }
    fn addr(&self) -> usize {
        (&**self.0) as *const T as usize
    }
    fn try_clone(&self) -> Option<Box<dyn HandleDyn>> {
        None
    }
    fn refcount(&self) -> Option<u32> {
        None
    }
    fn into_shared(self: Box<Self>) -> Box<dyn HandleDyn> {
        let unique = self.0.into_inner();
        Box::new(OgreArcHandle(Guarded::new(unique.into_ogre_arc())))
    }
    fn is_unique(&self) -> bool {
        true
    }
}
impl<T: Payload, A: BoundedOgreAllocator<T> + Send + Sync + 'static> IntoHandle for OgreUnique<T, A> {
    fn into_handle(self) -> Box<dyn HandleDyn> {
        Box::new(UniqueHandle(Guarded::new(self)))
    }
}

struct OgreArcHandle<T: Payload, A: BoundedOgreAllocator<T> + Send + Sync + 'static>(Guarded<OgreArc<T, A>>);
impl<T: Payload, A: BoundedOgreAllocator<T> + Send + Sync + 'static> HandleDyn for OgreArcHandle<T, A> {
    fn id(&self) -> u32 {
        (**self.0).id()
    }
    fn intact(&self) -> bool {
        (**self.0).intact()
    }
    fn addr(&self) -> usize {
        (&**self.0) as *const T as usize
    }
    fn try_clone(&self) -> Option<Box<dyn HandleDyn>> {
        Some(Box::new(OgreArcHandle(Guarded::new((*self.0).clone()))))
    }
    fn refcount(&self) -> Option<u32> {
        Some(self.0.references_count())
    }
    fn into_shared(self: Box<Self>) -> Box<dyn HandleDyn> {
        self
    }
    fn bulk_copies(&self, n: u32) -> Vec<Box<dyn HandleDyn>> {
        unsafe { self.0.increment_references(n) };
        ctx::harness_point();
        (0..n).map(|_| Box::new(OgreArcHandle(Guarded::new(unsafe { self.0.raw_copy() }))) as Box<dyn HandleDyn>).collect()
    }
}
impl<T: Payload, A: BoundedOgreAllocator<T> + Send + Sync + 'static> IntoHandle for OgreArc<T, A> {
    fn into_handle(self) -> Box<dyn HandleDyn> {
        Box::new(OgreArcHandle(Guarded::new(self)))
    }
}

struct ArcHandle<T: Payload>(Guarded<Arc<T>>);
impl<T: Payload> HandleDyn for ArcHandle<T> {
    fn id(&self) -> u32 {
        (**self.0).id()
    }
    fn intact(&self) -> bool {
        (**self.0).intact()
    }
    fn addr(&self) -> usize {
        Arc::as_ptr(&self.0) as usize
    }
    fn try_clone(&self) -> Option<Box<dyn HandleDyn>> {
        Some(Box::new(ArcHandle(Guarded::new(Arc::clone(&self.0)))))
    }
    fn refcount(&self) -> Option<u32> {
        Some(Arc::strong_count(&self.0) as u32)
    }
    fn into_shared(self: Box<Self>) -> Box<dyn HandleDyn> {
        self
    }
}
impl<T: Payload> IntoHandle for Arc<T> {
    fn into_handle(self) -> Box<dyn HandleDyn> {
        Box::new(ArcHandle(Guarded::new(self)))
    }
}

struct RefHandle<T: Payload>(&'static T);
impl<T: Payload> HandleDyn for RefHandle<T> {
    fn id(&self) -> u32 {
        self.0.id()
    }
    fn intact(&self) -> bool {
        self.0.intact()
    }
    fn addr(&self) -> usize {
        self.0 as *const T as usize
    }
    fn try_clone(&self) -> Option<Box<dyn HandleDyn>> {
        Some(Box::new(RefHandle(self.0)))
    }
    fn refcount(&self) -> Option<u32> {
        None
    }
    fn into_shared(self: Box<Self>) -> Box<dyn HandleDyn> {
        self
    }
}
impl<T: Payload> IntoHandle for &'static T {
    fn into_handle(self) -> Box<dyn HandleDyn> {
        Box::new(RefHandle(self))
    }
}

pub trait StreamDyn: Send {
    fn poll(&mut self, cx: &mut Context<'_>) -> Poll<Option<Box<dyn HandleDyn>>>;
    fn stream_id(&self) -> u32;
}

struct StreamW<S> {
    inner: Guarded<S>,
    id: u32,
}
impl<S, D> StreamDyn for StreamW<S>
where
    S: Stream<Item = D> + Unpin + Send,
    D: IntoHandle,
{
    fn poll(&mut self, cx: &mut Context<'_>) -> Poll<Option<Box<dyn HandleDyn>>> {
        match Pin::new(&mut *self.inner).poll_next(cx) {
            Poll::Ready(Some(item)) => Poll::Ready(Some(item.into_handle())),
            Poll::Ready(None) => Poll::Ready(None),
            Poll::Pending => Poll::Pending,
        }
    }
    fn stream_id(&self) -> u32 {
        self.id
    }
}

/// Simulator-controlled readiness of an async setter
#[derive(Clone)]
pub struct Gate {
    /// how many polls answer `Pending` before it resolves by itself (u32::MAX: only when released)
    pub pending_polls: Arc<AtomicU32>,
    pub release: Arc<AtomicBool>,
    pub polled: Arc<AtomicU32>,
}
impl Gate {
    pub fn new(pending_polls: u32) -> Self {
        Gate { pending_polls: Arc::new(AtomicU32::new(pending_polls)), release: Arc::new(AtomicBool::new(false)), polled: Arc::new(AtomicU32::new(0)) }
    }
}
impl Future for Gate {
    type Output = ();
    fn poll(self: Pin<&mut Self>, _cx: &mut Context<'_>) -> Poll<()> {
        self.polled.fetch_add(1, Ordering::Relaxed);
        if self.release.load(Ordering::Relaxed) {
            return Poll::Ready(());
        }
        let left = self.pending_polls.load(Ordering::Relaxed);
        if left == 0 {
            Poll::Ready(())
        } else {
            if left != u32::MAX {
                self.pending_polls.store(left - 1, Ordering::Relaxed);
            }
            Poll::Pending
        }
    }
}

pub type BoxFut<R> = Pin<Box<dyn Future<Output = R> + Send>>;

#[derive(Clone, Copy, Debug, PartialEq, Eq, Serialize, Deserialize)]
pub enum Subscribe {
    New,
    OldAndNewJoined,
    OldAndNewSplit,
}

pub trait ChanDyn: Send + Sync {
    fn kind(&self) -> Kind;
    fn buffer(&self) -> usize;
    fn max_streams(&self) -> usize;
    fn send(&self, id: u32) -> SendOutcome;
    fn send_with(&self, id: u32) -> SendOutcome;
    fn send_with_async(&self, id: u32, gate: Gate) -> BoxFut<SendOutcome>;
    /// Multi Arc kinds only: sends an externally built `Arc`
    fn send_derived(&self, id: u32) -> SendOutcome;
    fn reserve(&self) -> Option<usize>;
    fn fill(&self, slot: usize, id: u32);
    fn send_reserved(&self, slot: usize) -> bool;
    fn cancel_reserved(&self, slot: usize) -> bool;
    /// Uni: a consumer stream; Multi: a listener for new events
    fn create_stream(&self) -> Box<dyn StreamDyn>;
    /// log channel only
    fn subscribe(&self, how: Subscribe) -> Vec<Box<dyn StreamDyn>>;
    fn pending(&self) -> u32;
    fn running_streams(&self) -> u32;
    fn is_open(&self) -> bool;
    fn cancel_all(&self);
    fn flush(&self, timeout: Duration) -> BoxFut<u32>;
    fn end_stream(&self, stream_id: u32, timeout: Duration) -> BoxFut<bool>;
    fn end_all(&self, timeout: Duration) -> BoxFut<u32>;
    /// strong count of the channel's `Arc` (harness-side)
    fn arc_count(&self) -> usize;
}

fn map_send<I: Payload>(r: keen_retry::RetryConsumerResult<(), I, ()>) -> SendOutcome {
    match r {
        keen_retry::RetryResult::Ok { .. } => SendOutcome::Accepted,
        keen_retry::RetryResult::Transient { input, .. } => {
            let ok = input.intact();
            // the returned payload was never accepted: it is destroyed here, by its owner (the caller)
            let g = Guarded::new(input);
            drop(g);
            SendOutcome::Rejected { returned_intact: ok, setter_invoked: false }
        }
        keen_retry::RetryResult::Fatal { input, .. } => {
            drop(Guarded::new(input));
            SendOutcome::Fatal
        }
    }
}

fn map_send_setter<F>(r: keen_retry::RetryConsumerResult<(), F, ()>, invoked: &AtomicBool) -> SendOutcome {
    match r {
        keen_retry::RetryResult::Ok { .. } => SendOutcome::Accepted,
        keen_retry::RetryResult::Transient { input, .. } => {
            drop(input);
            SendOutcome::Rejected { returned_intact: true, setter_invoked: invoked.load(Ordering::Relaxed) }
        }
        keen_retry::RetryResult::Fatal { input, .. } => {
            drop(input);
            SendOutcome::Fatal
        }
    }
}

macro_rules! common_impl {
    () => {
        fn kind(&self) -> Kind {
            self.kind
        }
        fn buffer(&self) -> usize {
            self.buffer
        }
        fn max_streams(&self) -> usize {
            self.max_streams
        }
        fn send(&self, id: u32) -> SendOutcome {
            map_send(self.ch.send(T::make(id)))
        }
        fn send_with(&self, id: u32) -> SendOutcome {
            let invoked = AtomicBool::new(false);
            let r = self.ch.send_with(|slot: &mut T| {
                invoked.store(true, Ordering::Relaxed);
                // a setter is user code: it may take arbitrarily long (a scheduling point before and after the write)
                ctx::harness_point();
                unsafe { std::ptr::write(slot, T::make(id)) }
                ctx::harness_point();
            });
            map_send_setter(r, &invoked)
        }
        fn send_with_async(&self, id: u32, gate: Gate) -> BoxFut<SendOutcome> {
            let keepalive = Arc::clone(&*self.ch);
            let ch: &'static C = unsafe { &*Arc::as_ptr(&*self.ch) };
            Box::pin(async move {
                let invoked = Arc::new(AtomicBool::new(false));
                let invoked2 = Arc::clone(&invoked);
                let r = ch
                    .send_with_async(move |slot: &'static mut T| {
                        invoked2.store(true, Ordering::Relaxed);
                        async move {
                            gate.await;
                            ctx::harness_point();
                            unsafe { std::ptr::write(slot, T::make(id)) };
                            ctx::harness_point();
                            slot
                        }
                    })
                    .await;
                let out = map_send_setter(r, &invoked);
                drop(Guarded::new(keepalive));
                out
            })
        }
        fn pending(&self) -> u32 {
            self.ch.pending_items_count()
        }
        fn running_streams(&self) -> u32 {
            self.ch.running_streams_count()
        }
        fn is_open(&self) -> bool {
            self.ch.is_channel_open()
        }
        fn cancel_all(&self) {
            self.ch.cancel_all_streams()
        }
        fn flush(&self, timeout: Duration) -> BoxFut<u32> {
            let ch: &'static C = unsafe { &*Arc::as_ptr(&*self.ch) };
            let keepalive = Guarded::new(Arc::clone(&*self.ch));
            Box::pin(async move {
                let r = ch.flush(timeout).await;
                drop(keepalive);
                r
            })
        }
        fn end_stream(&self, stream_id: u32, timeout: Duration) -> BoxFut<bool> {
            let ch: &'static C = unsafe { &*Arc::as_ptr(&*self.ch) };
            let keepalive = Guarded::new(Arc::clone(&*self.ch));
            Box::pin(async move {
                let r = ch.gracefully_end_stream(stream_id, timeout).await;
                drop(keepalive);
                r
            })
        }
        fn end_all(&self, timeout: Duration) -> BoxFut<u32> {
            let ch: &'static C = unsafe { &*Arc::as_ptr(&*self.ch) };
            let keepalive = Guarded::new(Arc::clone(&*self.ch));
            Box::pin(async move {
                let r = ch.gracefully_end_all_streams(timeout).await;
                drop(keepalive);
                r
            })
        }
        fn arc_count(&self) -> usize {
            Arc::strong_count(&*self.ch)
        }
        fn reserve(&self) -> Option<usize> {
            assert!(self.kind.supports_reserve());
            self.ch.reserve_slot().map(|slot| slot as *mut T as usize)
        }
        fn fill(&self, slot: usize, id: u32) {
            ctx::harness_point();
            unsafe { std::ptr::write(slot as *mut T, T::make(id)) }
            ctx::harness_point();
        }
        fn send_reserved(&self, slot: usize) -> bool {
            self.ch.try_send_reserved(unsafe { &mut *(slot as *mut T) })
        }
        fn cancel_reserved(&self, slot: usize) -> bool {
            self.ch.try_cancel_slot_reserve(unsafe { &mut *(slot as *mut T) })
        }
    };
}

pub struct UniW<C, T, D> {
    ch: Guarded<Arc<C>>,
    kind: Kind,
    buffer: usize,
    max_streams: usize,
    _t: std::marker::PhantomData<fn() -> (T, D)>,
}

impl<C, T, D> ChanDyn for UniW<C, T, D>
where
    T: Payload,
    D: IntoHandle + std::fmt::Debug + Sync,
    C: ChannelCommon<T, D> + ChannelUni<'static, T, D> + ChannelProducer<'static, T, D> + ChannelConsumer<'static, D> + Send + Sync + 'static,
{
    common_impl!();
    fn send_derived(&self, _id: u32) -> SendOutcome {
        unreachable!("uni channels have no send_derived")
    }
    fn create_stream(&self) -> Box<dyn StreamDyn> {
        let (stream, id) = self.ch.create_stream();
        Box::new(StreamW { inner: Guarded::new(stream), id })
    }
    fn subscribe(&self, _how: Subscribe) -> Vec<Box<dyn StreamDyn>> {
        vec![self.create_stream()]
    }
}

pub trait MakeDerived<T: Payload>: Sized {
    fn make_derived(id: u32) -> Option<Self>;
}
impl<T: Payload> MakeDerived<T> for Arc<T> {
    fn make_derived(id: u32) -> Option<Self> {
        Some(Arc::new(T::make(id)))
    }
}
impl<T: Payload, A: BoundedOgreAllocator<T> + Send + Sync + 'static> MakeDerived<T> for OgreArc<T, A> {
    fn make_derived(_id: u32) -> Option<Self> {
        None
    }
}
impl<T: Payload> MakeDerived<T> for &'static T {
    fn make_derived(_id: u32) -> Option<Self> {
        None
    }
}

pub struct MultiW<C, T, D> {
    ch: Guarded<Arc<C>>,
    kind: Kind,
    buffer: usize,
    max_streams: usize,
    _t: std::marker::PhantomData<fn() -> (T, D)>,
}

impl<C, T, D> ChanDyn for MultiW<C, T, D>
where
    T: Payload,
    D: IntoHandle + MakeDerived<T> + std::fmt::Debug + Sync,
    C: ChannelCommon<T, D> + ChannelMulti<'static, T, D> + ChannelProducer<'static, T, D> + ChannelConsumer<'static, D> + Send + Sync + 'static,
{
    common_impl!();
    fn send_derived(&self, id: u32) -> SendOutcome {
        let derived = D::make_derived(id).expect("send_derived is only driven on the Arc kinds");
        let ok = self.ch.send_derived(&derived);
        drop(Guarded::new(derived));
        if ok {
            SendOutcome::Accepted
        } else {
            SendOutcome::Rejected { returned_intact: true, setter_invoked: false }
        }
    }
    fn create_stream(&self) -> Box<dyn StreamDyn> {
        let (stream, id) = self.ch.create_stream_for_new_events();
        Box::new(StreamW { inner: Guarded::new(stream), id })
    }
    fn subscribe(&self, how: Subscribe) -> Vec<Box<dyn StreamDyn>> {
        match how {
            Subscribe::New => vec![self.create_stream()],
            Subscribe::OldAndNewJoined => {
                let (stream, id) = self.ch.create_stream_for_old_and_new_events();
                vec![Box::new(StreamW { inner: Guarded::new(stream), id })]
            }
            Subscribe::OldAndNewSplit => {
                let ((old, old_id), (new, new_id)) = self.ch.create_streams_for_old_and_new_events();
                vec![Box::new(StreamW { inner: Guarded::new(old), id: old_id }), Box::new(StreamW { inner: Guarded::new(new), id: new_id })]
            }
        }
    }
}

fn uni<C, T, D>(kind: Kind, buffer: usize, max_streams: usize) -> Box<dyn ChanDyn>
where
    T: Payload,
    D: IntoHandle + std::fmt::Debug + Sync,
    C: ChannelCommon<T, D> + ChannelUni<'static, T, D> + ChannelProducer<'static, T, D> + ChannelConsumer<'static, D> + Send + Sync + 'static,
{
    Box::new(UniW::<C, T, D> { ch: Guarded::new(C::new("sim")), kind, buffer, max_streams, _t: std::marker::PhantomData })
}

fn multi<C, T, D>(kind: Kind, buffer: usize, max_streams: usize, name: &str) -> Box<dyn ChanDyn>
where
    T: Payload,
    D: IntoHandle + MakeDerived<T> + std::fmt::Debug + Sync,
    C: ChannelCommon<T, D> + ChannelMulti<'static, T, D> + ChannelProducer<'static, T, D> + ChannelConsumer<'static, D> + Send + Sync + 'static,
{
    Box::new(MultiW::<C, T, D> { ch: Guarded::new(C::new(name)), kind, buffer, max_streams, _t: std::marker::PhantomData })
}

pub const BUFFERS: [usize; 3] = [2, 4, 8];
pub const STREAMS: [usize; 3] = [1, 2, 4];

macro_rules! grid {
    ($buffer:expr, $ms:expr, $mk:ident) => {
        match ($buffer, $ms) {
            (2, 1) => $mk!(2, 1),
            (2, 2) => $mk!(2, 2),
            (2, 4) => $mk!(2, 4),
            (4, 1) => $mk!(4, 1),
            (4, 2) => $mk!(4, 2),
            (4, 4) => $mk!(4, 4),
            (8, 1) => $mk!(8, 1),
            (8, 2) => $mk!(8, 2),
            (8, 4) => $mk!(8, 4),
            other => panic!("(BUFFER_SIZE, MAX_STREAMS) = {:?} is not in the instantiated grid", other),
        }
    };
}

/// Name for the log channel of the calling worker thread: unique per process and OS thread, so that checks running at the
/// same time (in different processes) never map -- and truncate, delete -- each other's file
pub fn scratch_log_name(tag: &str) -> String {
    format!("verif-{}-{}-{:?}", tag, std::process::id(), std::thread::current().id()).replace(['(', ')'], "")
}

/// Path of the file the log channel named `name` maps (the crate hard-codes /tmp)
pub fn mmap_log_path(name: &str) -> String {
    format!("/tmp/{}.mmap", name)
}

/// Builds a channel of the given kind with payload type `T`
pub fn make<T: Payload + IntoHandle>(kind: Kind, buffer: usize, max_streams: usize, log_name: &str) -> Box<dyn ChanDyn> {
    ctx::trace(|| format!("make {} N={} S={}", kind.name(), buffer, max_streams));
    match kind {
        Kind::UniMoveAtomic => {
            macro_rules! mk { ($b:literal, $s:literal) => { uni::<ChannelUniMoveAtomic<T, $b, $s>, T, T>(kind, $b, $s) }; }
            grid!(buffer, max_streams, mk)
        }
        Kind::UniMoveFullSync => {
            macro_rules! mk { ($b:literal, $s:literal) => { uni::<ChannelUniMoveFullSync<T, $b, $s>, T, T>(kind, $b, $s) }; }
            grid!(buffer, max_streams, mk)
        }
        Kind::UniMoveCrossbeam => {
            macro_rules! mk { ($b:literal, $s:literal) => { uni::<ChannelUniMoveCrossbeam<T, $b, $s>, T, T>(kind, $b, $s) }; }
            grid!(buffer, max_streams, mk)
        }
        Kind::UniZcAtomic => {
            macro_rules! mk { ($b:literal, $s:literal) => { uni::<ChannelUniZeroCopyAtomic<T, $b, $s>, T, OgreUnique<T, AllocatorAtomicArray<T, $b>>>(kind, $b, $s) }; }
            grid!(buffer, max_streams, mk)
        }
        Kind::UniZcFullSync => {
            macro_rules! mk { ($b:literal, $s:literal) => { uni::<ChannelUniZeroCopyFullSync<T, $b, $s>, T, OgreUnique<T, AllocatorFullSyncArray<T, $b>>>(kind, $b, $s) }; }
            grid!(buffer, max_streams, mk)
        }
        Kind::MultiArcAtomic => {
            macro_rules! mk { ($b:literal, $s:literal) => { multi::<ChannelMultiArcAtomic<T, $b, $s>, T, Arc<T>>(kind, $b, $s, "sim") }; }
            grid!(buffer, max_streams, mk)
        }
        Kind::MultiArcFullSync => {
            macro_rules! mk { ($b:literal, $s:literal) => { multi::<ChannelMultiArcFullSync<T, $b, $s>, T, Arc<T>>(kind, $b, $s, "sim") }; }
            grid!(buffer, max_streams, mk)
        }
        Kind::MultiArcCrossbeam => {
            macro_rules! mk { ($b:literal, $s:literal) => { multi::<ChannelMultiArcCrossbeam<T, $b, $s>, T, Arc<T>>(kind, $b, $s, "sim") }; }
            grid!(buffer, max_streams, mk)
        }
        Kind::MultiOgreAtomic => {
            macro_rules! mk { ($b:literal, $s:literal) => { multi::<ChannelMultiOgreArcAtomic<T, $b, $s>, T, OgreArc<T, AllocatorAtomicArray<T, $b>>>(kind, $b, $s, "sim") }; }
            grid!(buffer, max_streams, mk)
        }
        Kind::MultiOgreFullSync => {
            macro_rules! mk { ($b:literal, $s:literal) => { multi::<ChannelMultiOgreArcFullSync<T, $b, $s>, T, OgreArc<T, AllocatorFullSyncArray<T, $b>>>(kind, $b, $s, "sim") }; }
            grid!(buffer, max_streams, mk)
        }
        Kind::MultiMmapLog => match max_streams {
            1 => multi::<ChannelMultiMmapLog<T, 1>, T, &'static T>(kind, usize::MAX, 1, log_name),
            2 => multi::<ChannelMultiMmapLog<T, 2>, T, &'static T>(kind, usize::MAX, 2, log_name),
            4 => multi::<ChannelMultiMmapLog<T, 4>, T, &'static T>(kind, usize::MAX, 4, log_name),
            other => panic!("MAX_STREAMS = {} is not in the instantiated grid", other),
        },
    }
}
