#!/usr/bin/env python3
"""tools/seeded_table.py -- rewrites the table of seeded changes in DESIGN.md section 12 (between the SEEDED-TABLE markers) from
seeded/*/meta.json (what each change needs in order to manifest; which check caught it, with which verdict keys)."""
import json, glob, re, os
rows = []
def short_keys(keys, n=3):
    ks = [k.strip() for k in keys.split(',') if k.strip() and 'oracle=' not in k]
    # keep the informative tail of each key
    out = []
    for k in ks:
        parts = k.split('/')
        t = '/'.join(parts[:1] + parts[-2:]) if len(parts) > 3 else k
        if t not in out:
            out.append(t)
    return ', '.join('`%s`' % k for k in out[:n]) + (' ...' if len(out) > n else '')
for d in sorted(glob.glob('/verif/seeded/*/')):
    sid = os.path.basename(d.rstrip('/'))
    m = json.load(open(d + 'meta.json'))
    needs = ' '.join((m.get('needs_to_manifest') or '').split())
    needs = re.sub(r'[`*]', '', needs)[:230]
    caught = ''
    cr = m.get('checks_run') or ''
    sw = m.get('sweep_2026_09_29')
    sweeps = re.findall(r'SWEEP (\S+) (\S+) exit=(\d+) harness_errors=\d+ keys=([^;]*)', cr)
    if sweeps:
        hits = [(c, k) for (_, c, e, k) in sweeps if e == '1']
        misses = [c for (_, c, e, k) in sweeps if e == '0']
        parts = []
        if misses and hits:
            parts.append('first missed by %s; after the check was strengthened:' % misses[0])
        elif misses:
            parts.append('missed by %s' % ', '.join(misses))
        for c, k in hits[-1:]:
            parts.append('%s: %s' % (c, short_keys(k)))
        caught = ' '.join(parts)
    elif sw:
        caught = ('%s: %s' % (sw['check'].split()[0], short_keys(sw['violation_keys']))) if sw['exit'] == 1 else 'missed by %s in the sweep' % sw['check'].split()[0]
    if cr and not sweeps:
        extra = ' '.join(cr.split())
        caught = (caught + ' -- ' if caught else '') + extra[:260]
    rows.append('| %s | %s | %s |' % (sid, needs, caught))
table = '| seeded change | needs, in order to manifest | caught by (check: verdict keys) |\n|---|---|---|\n' + '\n'.join(rows)
p = '/verif/DESIGN.md'
s = open(p).read()
if 'SEEDED_TABLE_PLACEHOLDER' in s:
    s = s.replace('SEEDED_TABLE_PLACEHOLDER', '<!-- SEEDED-TABLE-BEGIN -->\n' + table + '\n<!-- SEEDED-TABLE-END -->')
else:
    s = re.sub(r'<!-- SEEDED-TABLE-BEGIN -->.*?<!-- SEEDED-TABLE-END -->', lambda _: '<!-- SEEDED-TABLE-BEGIN -->\n' + table + '\n<!-- SEEDED-TABLE-END -->', s, flags=re.S)
open(p, 'w').write(s)
print(len(rows), 'rows')
