//! Scenario families about control of streams and of suspended producers (engine T):
//!   `cancel`  -- cancel_all_streams / gracefully_end_stream / gracefully_end_all_streams landing anywhere inside the
//!                poll steps of 1..MAX_STREAMS executor-driven streams, with concurrent sends (C07);
//!   `suspend` -- one or two `send_with_async` calls whose setter stays suspended (for k polls, to the end of the run, or
//!                dropped) while other threads -- and the same thread -- keep using the channel (C20).

use crate::chan::{self, Gate, Kind};
use crate::ctx::{self, harness_point, harness_yield, SchedSpec};
use crate::engine_t::Body;
use crate::framework::{Scenario, Tier};
use crate::harness::{self, HLock};
use crate::payload::Tracked;
use crate::rng::Rng;
use crate::scn_uni::{do_send, driver_thread, event_id, producer_thread, ChanArc, DriverCfg, Entry, Ev, EvKind, Shared};
use serde::{Deserialize, Serialize};
use std::sync::Arc;
use std::time::Duration;

fn log_name(tag: &str) -> String {
    chan::scratch_log_name(tag)
}

struct LogFileGuard(Option<String>);
impl Drop for LogFileGuard {
    fn drop(&mut self) {
        if let Some(n) = &self.0 {
            let _ = std::fs::remove_file(chan::mmap_log_path(n));
        }
    }
}

// =============================================================================================================
// C07: cancel / end
// =============================================================================================================

#[derive(Clone, Copy, Debug, PartialEq, Eq, Serialize, Deserialize)]
pub enum CancelAction {
    /// `cancel_all_streams()`: every stream is targeted
    CancelAll,
    /// `gracefully_end_stream(id, ZERO)` for each stream whose bit is set in the mask, one after the other
    EndStreams(u8),
    /// `gracefully_end_all_streams(ZERO)`
    EndAll,
}

impl CancelAction {
    fn name(self) -> &'static str {
        match self {
            CancelAction::CancelAll => "cancel_all_streams",
            CancelAction::EndStreams(_) => "gracefully_end_stream",
            CancelAction::EndAll => "gracefully_end_all_streams",
        }
    }
}

#[derive(Clone, Debug, Serialize, Deserialize)]
pub struct CancelParams {
    pub sched: SchedSpec,
    pub kind: Kind,
    pub buffer: usize,
    pub max_streams: usize,
    pub streams: usize,
    pub prefill: u32,
    pub producers: Vec<Vec<Entry>>,
    pub hold: u32,
    pub waker_churn: bool,
    pub action: CancelAction,
    /// harness-level scheduling points the requesting thread lets pass before it acts
    pub delay: u32,
    /// (EndStreams only, every stream id in use) another thread creates a new stream as soon as an ended one was dropped: it
    /// is handed the recycled stream id, nobody told it to end, and it sends one more event
    #[serde(default)]
    pub replace: bool,
    /// this stream's consumer leaves on its own (drops its stream without having been told to end, as a `take(n)` would)
    /// before the request is issued; it holds a lower stream id than at least one stream that stays
    #[serde(default)]
    pub early_leaver: Option<usize>,
}

fn cancel_body(p: &CancelParams) {
    harness::reset();
    let kind = p.kind;
    let name = log_name("cancel");
    let _guard = LogFileGuard(if kind == Kind::MultiMmapLog { Some(name.clone()) } else { None });
    let key = |oracle: &str| format!("cancel/{}/{}/{}", kind.name(), p.action.name(), oracle);
    let ch: ChanArc = Arc::new(chan::make::<Tracked>(kind, p.buffer, p.max_streams, &name));
    let shared = Arc::new(HLock::new(Shared { events: vec![], drops: vec![], producers_active: p.producers.len() }));
    // streams first (Multi listeners only see what is sent during their life), then the events already buffered
    let mut drivers: Vec<usize> = vec![];
    let mut stream_ids: Vec<u32> = vec![];
    let mut streams = vec![];
    for _ in 0..p.streams {
        let s = ch.create_stream();
        stream_ids.push(s.stream_id());
        streams.push(s);
    }
    for i in 0..p.prefill {
        let id = crate::scn_uni::prefill_id(i);
        let inv = ctx::stamp();
        let accepted = ch.send(id).accepted();
        let ret = ctx::stamp();
        shared.lock().unwrap().events.push(Ev { thread: 0, kind: EvKind::SendOp(Entry::Send), id, inv, ret, accepted, ended: false, intact: true, setter_invoked_on_reject: false, addr: 0, wakes_delivered: 0, wake_misses: 0 });
    }
    let n_prod = p.producers.len();
    let mut handles = vec![];
    for (s, stream) in streams.into_iter().enumerate() {
        let d = harness::new_driver();
        drivers.push(d);
        let shared2 = Arc::clone(&shared);
        let cfg = DriverCfg { hold: p.hold, spurious_poll: 0, waker_churn: p.waker_churn };
        let thread_no = 1 + n_prod + s;
        handles.push(shuttle::thread::spawn(move || driver_thread(stream, shared2, d, thread_no, cfg)));
    }
    let mut targeted: Vec<bool> = (0..p.streams)
        .map(|s| match p.action {
            CancelAction::CancelAll | CancelAction::EndAll => true,
            CancelAction::EndStreams(mask) => mask & (1 << s) != 0,
        })
        .collect();
    if let Some(l) = p.early_leaver {
        // not told to end by anybody (it is gone before the request): `gracefully_end_stream` is not issued for it
        if l < targeted.len() {
            targeted[l] = false;
        }
    }
    let replace = p.replace && matches!(p.action, CancelAction::EndStreams(_));
    let canceller_done: Arc<HLock<bool>> = Arc::new(HLock::new(false));
    // (driver, stream id, creation stamp, id of the event sent after the creation) of the replacement stream
    let newcomer: Arc<HLock<Option<(usize, u32, u64, u64)>>> = Arc::new(HLock::new(None));
    let mut prod_handles = vec![];
    for (t, ops) in p.producers.iter().enumerate() {
        let (ch2, shared2, ops2) = (Arc::clone(&ch), Arc::clone(&shared), ops.clone());
        prod_handles.push(shuttle::thread::spawn(move || producer_thread(ch2, shared2, t, ops2)));
    }
    // the requesting thread
    let request: Arc<HLock<Option<(u64, u64)>>> = Arc::new(HLock::new(None));
    let mut canceller = Some({
        let (ch2, request2, action, delay, ids, targeted2, canceller_done2) = (Arc::clone(&ch), Arc::clone(&request), p.action, p.delay, stream_ids.clone(), targeted.clone(), Arc::clone(&canceller_done));
        let kind_name = kind.name();
        let (early, drivers_c, shared_c) = (p.early_leaver, drivers.clone(), Arc::clone(&shared));
        shuttle::thread::spawn(move || {
            if let Some(l) = early {
                // the leaver's consumer goes away first (nobody told it to end) ...
                ctx::trace(|| format!("the consumer of stream #{} leaves on its own", l));
                ctx::fault_fired("consumer_leaves_on_its_own_before_the_request");
                harness::stop_driver(drivers_c[l]);
                let mut rounds = 0u32;
                while !shared_c.lock().unwrap().drops.iter().any(|(th, _, _)| *th == 1 + n_prod + l) {
                    if ctx::aborted() {
                        return;
                    }
                    harness_yield();
                    rounds += 1;
                    if rounds > 50_000 {
                        panic!("harness: the early leaver never dropped its stream");
                    }
                }
            }
            for _ in 0..delay {
                harness_point();
            }
            let inv = ctx::stamp();
            ctx::trace(|| format!("request: {:?}", action));
            match action {
                CancelAction::CancelAll => {
                    ctx::op_mark(ctx::intern(format!("{}:cancel_all_streams", kind_name)));
                    ch2.cancel_all();
                    ctx::op_mark("");
                }
                CancelAction::EndStreams(_) => {
                    for (s, id) in ids.iter().enumerate() {
                        if targeted2[s] {
                            ctx::op_mark(ctx::intern(format!("{}:gracefully_end_stream", kind_name)));
                            let r = harness::block_on_sim(ch2.end_stream(*id, Duration::ZERO), |_| true);
                            ctx::op_mark("");
                            if ctx::aborted() {
                                return;
                            }
                            if r != Some(true) {
                                ctx::report("C07", "end_stream_gave_up", format!("cancel/{}/gracefully_end_stream/end_stream_gave_up", kind_name), format!("gracefully_end_stream({}, no timeout) answered {:?}", id, r));
                            }
                        }
                    }
                }
                CancelAction::EndAll => {
                    ctx::op_mark(ctx::intern(format!("{}:gracefully_end_all_streams", kind_name)));
                    let r = harness::block_on_sim(ch2.end_all(Duration::ZERO), |_| true);
                    ctx::op_mark("");
                    if ctx::aborted() {
                        return;
                    }
                    if r != Some(0) {
                        ctx::report("C07", "end_all_gave_up", format!("cancel/{}/gracefully_end_all_streams/end_all_gave_up", kind_name), format!("gracefully_end_all_streams(no timeout) answered {:?} streams still running", r));
                    }
                }
            }
            let ret = ctx::stamp();
            *request2.lock().unwrap() = Some((inv, ret));
            *canceller_done2.lock().unwrap() = true;
        })
    });
    // the replacing thread: as soon as a stream is gone it creates a new one (handed the recycled id) and sends an event
    let replacer = if replace {
        let (ch2, shared2, newcomer2, canceller_done3, n_streams, hold, churn) = (Arc::clone(&ch), Arc::clone(&shared), Arc::clone(&newcomer), Arc::clone(&canceller_done), p.streams, p.hold, p.waker_churn);
        let thread_no = 1 + n_prod + p.streams;
        Some(shuttle::thread::spawn(move || {
            let mut rounds = 0u32;
            // "its stream id becomes reusable once it is dropped": once the drop has *returned* on the consumer's thread (while
            // it is still in progress MAX_STREAMS streams exist, and one more may not be created)
            let _ = n_streams;
            while shared2.lock().unwrap().drops.is_empty() {
                if ctx::aborted() || *canceller_done3.lock().unwrap() {
                    return None;
                }
                harness_yield();
                rounds += 1;
                if rounds > 50_000 {
                    return None;
                }
            }
            let create_inv = ctx::stamp();
            let stream = ch2.create_stream();
            let created = ctx::stamp();
            let id = stream.stream_id();
            ctx::trace(|| format!("replacement stream created with id {}", id));
            let d = harness::new_driver();
            *newcomer2.lock().unwrap() = Some((d, id, create_inv, created));
            let shared3 = Arc::clone(&shared2);
            let cfg = DriverCfg { hold, spurious_poll: 0, waker_churn: churn };
            let h = shuttle::thread::spawn(move || driver_thread(stream, shared3, d, thread_no, cfg));
            // one more event, sent after the newcomer exists
            let ev = event_id(40, 0);
            let inv = ctx::stamp();
            ctx::op_mark("send[after_the_replacement]");
            let accepted = ch2.send(ev).accepted();
            ctx::op_mark("");
            let ret = ctx::stamp();
            shared2.lock().unwrap().events.push(Ev { thread: 40, kind: EvKind::SendOp(Entry::Send), id: ev, inv, ret, accepted, ended: false, intact: true, setter_invoked_on_reject: false, addr: 0, wakes_delivered: 0, wake_misses: 0 });
            Some(h)
        }))
    } else {
        None
    };
    for h in prod_handles {
        let _ = h.join();
    }
    let mut newcomer_created_at: Option<u64> = None;
    let mut newcomer_creation: Option<(u32, u64, u64)> = None;
    if let Some(r) = replacer {
        if let Ok(Some(h)) = r.join() {
            handles.push(h);
        }
        if let Some((d, id, create_inv, created)) = *newcomer.lock().unwrap() {
            drivers.push(d);
            stream_ids.push(id);
            targeted.push(false);
            newcomer_created_at = Some(created);
            newcomer_creation = Some((id, create_inv, created));
            ctx::with_ctx(|c| *c.probes.entry("harness.cancel.replacement_stream_got_a_recycled_id").or_insert(0) += stream_ids[..stream_ids.len() - 1].contains(&id) as u64);
        }
        // the request may legitimately still be waiting (see below): the verdicts do not wait for it
        let mut rounds = 0u32;
        loop {
            let sh = shared.lock().unwrap();
            let all_ended = (0..p.streams).all(|s| !targeted[s] || sh.events.iter().any(|e| e.thread == 1 + n_prod + s && e.kind == EvKind::Poll && e.ended));
            drop(sh);
            if all_ended || *canceller_done.lock().unwrap() || ctx::aborted() {
                break;
            }
            harness_yield();
            rounds += 1;
            if rounds > 4_000 {
                break;
            }
        }
    } else if let Some(c) = canceller.take() {
        let _ = c.join();
    }
    if ctx::aborted() {
        for d in drivers.iter() {
            harness::stop_driver(*d);
        }
        return;
    }
    harness::wait_quiescent(&drivers);
    if ctx::aborted() {
        return;
    }
    let n_streams = drivers.len();
    // ---- verdict 1: every targeted stream has answered end-of-stream (nobody is left who could wake it)
    let ended = |thread_no: usize| shared.lock().unwrap().events.iter().any(|e| e.thread == thread_no && e.kind == EvKind::Poll && e.ended);
    for s in 0..n_streams {
        let thread_no = 1 + n_prod + s;
        let (parked, wakes) = harness::with_driver(drivers[s], |d| (d.parked.get(), d.wakes.get()));
        if Some(s) == p.early_leaver {
            continue;
        }
        let told = targeted[s] || (p.early_leaver.is_some() && matches!(p.action, CancelAction::CancelAll | CancelAction::EndAll));
        if told && !ended(thread_no) {
            ctx::report(
                "C07",
                "parked_and_not_ended",
                key("parked_and_not_ended"),
                format!("stream #{} (id {}) was told to end, every producer has returned and nobody is left to wake it, yet it has not answered end-of-stream (parked={}, wake-ups received={})", s, stream_ids[s], parked, wakes),
            );
        }
        if !told && ended(thread_no) {
            ctx::report("C07", "untargeted_ended", key("untargeted_ended"), format!("stream #{} (id {}) answered end-of-stream although only {:?} were told to end", s, stream_ids[s], targeted));
        }
    }
    // ---- verdict 2: untargeted streams keep receiving (a lost wake-up, C04's subject, is neutralised by a harness-side flush)
    let untargeted: Vec<usize> = (0..n_streams).filter(|s| !targeted[*s] && Some(*s) != p.early_leaver).collect();
    if !untargeted.is_empty() && ctx::with_ctx(|c| c.violations.is_empty()).unwrap_or(true) {
        loop {
            let before = shared.lock().unwrap().events.iter().filter(|e| e.kind == EvKind::Poll && e.accepted).count();
            for s in untargeted.iter() {
                harness::kick(drivers[*s]);
            }
            harness::wait_quiescent(&drivers);
            let after = shared.lock().unwrap().events.iter().filter(|e| e.kind == EvKind::Poll && e.accepted).count();
            if after == before || ctx::aborted() {
                break;
            }
        }
        if ctx::aborted() {
            return;
        }
        let sh = shared.lock().unwrap();
        let accepted: Vec<&Ev> = sh.events.iter().filter(|e| matches!(e.kind, EvKind::SendOp(_)) && e.accepted).collect();
        if kind.is_uni() {
            // conservation: everything accepted was yielded by some stream
            for e in accepted.iter() {
                if !sh.events.iter().any(|y| y.kind == EvKind::Poll && y.accepted && y.id == e.id) {
                    ctx::report("C07", "untargeted_starved", key("untargeted_starved"), format!("event {:#x} was accepted and never yielded although stream(s) {:?} were not told to end and kept polling", e.id, untargeted));
                    break;
                }
            }
        } else {
            for s in untargeted.iter() {
                let thread_no = 1 + n_prod + *s;
                for e in accepted.iter() {
                    if *s >= p.streams && newcomer_created_at.map(|c| e.inv < c).unwrap_or(false) {
                        // the replacement listener is entitled to what was sent after it existed
                        continue;
                    }
                    if !sh.events.iter().any(|y| y.thread == thread_no && y.kind == EvKind::Poll && y.accepted && y.id == e.id) {
                        // which history is it? The send ran while a listener with a lower stream id was being removed (the live
                        // list is compacted under the sender's cursor -- the recorded finding), or nothing of the kind happened
                        let removal_under_the_cursor = (0..p.streams).any(|t| (targeted[t] || Some(t) == p.early_leaver) && stream_ids[t] <= stream_ids[*s] && sh.drops.iter().any(|(th, d_inv, d_ret)| *th == 1 + n_prod + t && *d_inv < e.ret && e.inv < *d_ret));
                        // ... or a listener with a lower stream id was being *added* (the same list is rewritten the other way)
                        let addition_under_the_cursor = *s < p.streams && newcomer_creation.map(|(id, c_inv, c_ret)| id <= stream_ids[*s] && c_inv < e.ret && e.inv < c_ret).unwrap_or(false);
                        let removal_under_the_cursor = removal_under_the_cursor || addition_under_the_cursor;
                        let oracle = if removal_under_the_cursor { "untargeted_starved" } else { "untargeted_starved_without_a_concurrent_removal" };
                        ctx::report("C07", oracle, key(oracle), format!("listener #{} (stream id {}) was not told to end, yet it never yielded accepted event {:#x} (sent during stamps {}..{}; removals of listeners (thread, from, to): {:?})", s, stream_ids[*s], e.id, e.inv, e.ret, sh.drops));
                        break;
                    }
                }
            }
        }
    }
    // ---- end of run: everybody ends; afterwards the stream ids are reusable
    if replace && !*canceller_done.lock().unwrap() {
        // gracefully_end_stream() waits until it *sees* the stream id vacant; the id was handed out again before it looked:
        // it goes on waiting until the newcomer is gone as well (noted, not judged: C07 speaks about the streams)
        ctx::with_ctx(|c| *c.probes.entry("harness.cancel.end_stream_still_waiting_after_its_stream_was_dropped_and_the_id_recycled").or_insert(0) += 1);
    }
    ch.cancel_all();
    for d in drivers.iter() {
        harness::stop_driver(*d);
    }
    for h in handles {
        let _ = h.join();
    }
    if let Some(c) = canceller.take() {
        let _ = c.join();
    }
    if ctx::aborted() {
        return;
    }
    let running = ch.running_streams();
    if running != 0 {
        ctx::report("C07", "running_streams_after_drop", key("running_streams_after_drop"), format!("every stream has been dropped and running_streams_count() is {}", running));
    } else {
        let mut again = vec![];
        for _ in 0..p.max_streams {
            again.push(ch.create_stream());
        }
        let mut ids: Vec<u32> = again.iter().map(|s| s.stream_id()).collect();
        ids.sort_unstable();
        ids.dedup();
        if ids.len() != p.max_streams {
            ctx::report("C07", "stream_ids_not_reusable", key("stream_ids_not_reusable"), format!("after every stream was dropped, creating MAX_STREAMS={} streams handed out ids {:?}", p.max_streams, ids));
        }
        drop(again);
    }
}

pub struct Cancel;

impl Scenario for Cancel {
    type P = CancelParams;
    fn property(&self) -> &'static str {
        "C07"
    }
    fn name(&self) -> &'static str {
        "cancel"
    }
    fn engine(&self) -> &'static str {
        "T"
    }
    fn generate(&self, rng: &mut Rng, tier: Tier) -> CancelParams {
        let kind = *rng.pick(&[
            Kind::UniMoveAtomic,
            Kind::UniMoveFullSync,
            Kind::UniMoveCrossbeam,
            Kind::UniZcAtomic,
            Kind::UniZcFullSync,
            Kind::MultiArcAtomic,
            Kind::MultiArcFullSync,
            Kind::MultiArcCrossbeam,
            Kind::MultiOgreAtomic,
            Kind::MultiOgreFullSync,
            Kind::MultiMmapLog,
        ]);
        // a run on the log channel creates, maps and removes a file (10-50 x the cost of any other run, and very dependent on
        // the machine): most of them are drawn again, so that they do not dominate the batch (quick tier: 1 in 20 kept, i.e. about
        // one run in 200 is on the log channel; thorough tier: 1 in 3 kept)
        let keep = if tier == Tier::Quick { rng.chance(1, 20) } else { rng.chance(1, 3) };
        let kind = if kind == Kind::MultiMmapLog && !keep {
            *rng.pick(&[Kind::UniMoveAtomic, Kind::UniMoveFullSync, Kind::UniMoveCrossbeam, Kind::UniZcAtomic, Kind::UniZcFullSync, Kind::MultiArcAtomic, Kind::MultiArcFullSync, Kind::MultiArcCrossbeam, Kind::MultiOgreAtomic, Kind::MultiOgreFullSync])
        } else {
            kind
        };
        let buffer = *rng.pick(&chan::BUFFERS);
        let max_streams = *rng.pick(&chan::STREAMS);
        let streams = 1 + rng.below(max_streams.min(3) as u64) as usize;
        // never more than BUFFER_SIZE - 1 events in total: nobody ever waits for room
        let budget = if kind == Kind::MultiMmapLog { 6 } else { buffer - 1 };
        let total = rng.below(budget as u64 + 1) as usize;
        let prefill = rng.below(total as u64 + 1) as u32;
        let mut left = total - prefill as usize;
        let n_prod = if left == 0 { 0 } else { 1 + rng.below(2) as usize };
        let mut producers: Vec<Vec<Entry>> = (0..n_prod).map(|_| vec![]).collect();
        while left > 0 {
            let t = rng.below(n_prod as u64) as usize;
            let e = if kind.is_uni() { crate::scn_uni::draw_entry(rng, kind) } else { crate::scn_multi::draw_multi_entry(rng, kind) };
            let e = if kind == Kind::MultiMmapLog { *rng.pick(&[Entry::Send, Entry::SendWith]) } else { e };
            producers[t].push(e);
            left -= 1;
        }
        producers.retain(|o| !o.is_empty());
        let action = match rng.below(10) {
            0..=4 => CancelAction::CancelAll,
            5..=7 => CancelAction::EndStreams(1 + rng.below((1u64 << streams) - 1) as u8),
            _ => CancelAction::EndAll,
        };
        let mut sched = SchedSpec::draw(rng);
        if kind != Kind::MultiMmapLog && rng.chance(1, 6) {
            sched.origin = u32::MAX - rng.below(3 * buffer as u64 + 2) as u32;
        }
        let replace = matches!(action, CancelAction::EndStreams(_)) && streams == max_streams && kind != Kind::MultiMmapLog && total + 1 < buffer && rng.chance(1, 2);
        // with a replacement exactly one stream is told to end (the request may go on waiting once the id was handed out again)
        let action = if replace { CancelAction::EndStreams(1 << rng.below(streams as u64)) } else { action };
        let early_leaver = if streams >= 2 && !replace && rng.chance(1, 4) { Some(rng.below(streams as u64 - 1) as usize) } else { None };
        let action = match (action, early_leaver) {
            (CancelAction::EndStreams(mask), Some(l)) => {
                let m = mask & !(1u8 << l);
                CancelAction::EndStreams(if m == 0 { 1u8 << (streams - 1) } else { m })
            }
            (a, _) => a,
        };
        CancelParams { sched, kind, buffer, max_streams, streams, prefill, producers, hold: if rng.chance(1, 3) { 1 } else { 0 }, waker_churn: rng.chance(1, 4), action, delay: *rng.pick(&[0, 0, 1, 3, 8, 20, 60]), replace, early_leaver }
    }
    fn sched<'a>(&self, p: &'a CancelParams) -> &'a SchedSpec {
        &p.sched
    }
    fn with_sched(&self, p: &CancelParams, s: SchedSpec) -> CancelParams {
        let mut q = p.clone();
        q.sched = s;
        q
    }
    fn body(&self, p: &CancelParams) -> Option<Body> {
        let p2 = p.clone();
        Some(Arc::new(move || cancel_body(&p2)))
    }
    fn shrink(&self, p: &CancelParams) -> Vec<CancelParams> {
        let mut out = vec![];
        for i in 0..p.producers.len() {
            let mut q = p.clone();
            q.producers.remove(i);
            out.push(q);
        }
        for i in 0..p.producers.len() {
            if p.producers[i].len() > 1 {
                for j in (0..p.producers[i].len()).rev() {
                    let mut q = p.clone();
                    q.producers[i].remove(j);
                    out.push(q);
                }
            }
        }
        if p.prefill > 0 {
            let mut q = p.clone();
            q.prefill -= 1;
            out.push(q);
        }
        if p.streams > 1 && p.early_leaver.map(|l| l + 2 < p.streams).unwrap_or(true) {
            let mut q = p.clone();
            q.streams -= 1;
            if let CancelAction::EndStreams(mask) = q.action {
                let m = mask & ((1u8 << q.streams) - 1);
                q.action = CancelAction::EndStreams(if m == 0 { 1 } else { m });
            }
            out.push(q);
        }
        if p.delay > 0 {
            let mut q = p.clone();
            q.delay /= 2;
            out.push(q);
        }
        if p.hold > 0 {
            let mut q = p.clone();
            q.hold = 0;
            out.push(q);
        }
        if p.waker_churn {
            let mut q = p.clone();
            q.waker_churn = false;
            out.push(q);
        }
        if p.replace {
            let mut q = p.clone();
            q.replace = false;
            out.push(q);
        }
        if p.early_leaver.is_some() {
            let mut q = p.clone();
            q.early_leaver = None;
            out.push(q);
        }
        if p.sched.weak_cas > 0 || p.sched.stall > 0 {
            let mut q = p.clone();
            q.sched.weak_cas = 0;
            q.sched.stall = 0;
            out.push(q);
        }
        if p.sched.origin != 0 {
            let mut q = p.clone();
            q.sched.origin = 0;
            out.push(q);
        }
        out
    }
    fn size(&self, p: &CancelParams) -> u64 {
        p.producers.iter().map(|o| o.len() as u64).sum::<u64>() * 4 + p.streams as u64 * 2 + p.prefill as u64 + p.delay as u64 / 8
    }
    fn livelock_in_scope(&self, _p: &CancelParams, op: &str) -> bool {
        // C07 speaks about the requests and about the streams; a *send* that never returns while listeners are being
        // removed is the fan-out vs. live-list race (C17's subject) and is not judged here
        op == "poll_next" || op.contains("cancel_all_streams") || op.contains("gracefully_end")
    }
    fn assumptions(&self) -> Vec<String> {
        vec![
            "sequential consistency at the instrumented atomics; the plain shared cells (keep_streams_running[], wakers[], used_streams[]) interleave at the instrumented yield points, whole accesses only".into(),
            "executor model: a stream is re-polled iff its waker was invoked; the verdict is taken when every producer and the requesting thread have returned and every stream is finished or parked without a pending wake".into(),
            "all streams exist before the request is issued (streams created concurrently with cancel_all_streams are not 'targeted' by definition)".into(),
            "fewer events than BUFFER_SIZE in total, so that no send ever waits for room".into(),
            "the 1 ms sleeps inside gracefully_end_* are simulated time (verif::sleep seam)".into(),
        ]
    }
}

// =============================================================================================================
// C20: suspended async sends
// =============================================================================================================

#[derive(Clone, Copy, Debug, PartialEq, Eq, Serialize, Deserialize)]
pub enum Suspension {
    /// the setter answers Pending this many times (the sending task is re-polled by its thread, other work in between)
    Polls(u32),
    /// stays suspended until every other thread has finished and the verdicts are in; then it is released
    UntilTheEnd,
    /// stays suspended until the end, then the future is dropped (cancellation)
    Dropped,
}

#[derive(Clone, Copy, Debug, PartialEq, Eq, Serialize, Deserialize)]
pub enum OtherOp {
    Send(Entry),
    Pending,
    /// `flush(no timeout)`: returns once the consumers have taken what is buffered -- a suspended send is not buffered
    Flush,
}

#[derive(Clone, Debug, Serialize, Deserialize)]
pub struct SuspendParams {
    pub sched: SchedSpec,
    pub kind: Kind,
    pub buffer: usize,
    pub max_streams: usize,
    pub streams: usize,
    /// one or two suspended senders
    pub suspended: Vec<Suspension>,
    /// operations the thread owning suspended sender #0 performs itself while its send is suspended (as a
    /// single-threaded executor would run other tasks)
    pub same_thread_ops: Vec<OtherOp>,
    /// operations of the other threads
    pub others: Vec<Vec<OtherOp>>,
}

fn suspension_name(s: Suspension) -> &'static str {
    match s {
        Suspension::Polls(_) => "polls",
        Suspension::UntilTheEnd => "until_the_end",
        Suspension::Dropped => "dropped",
    }
}

#[derive(Default)]
struct SuspState {
    /// per suspended sender: its setter has been polled at least once (the send is now suspended inside the channel)
    suspended_now: Vec<bool>,
    /// the sender's thread has nothing left to do while its send is suspended (it is parked now)
    idle: Vec<bool>,
    finished: Vec<Option<bool>>,
    /// the sender's thread has done everything it was meant to do (its send and all of its same-thread operations)
    thread_done: Vec<bool>,
    release: bool,
}

fn run_other_op(ch: &ChanArc, shared: &Arc<HLock<Shared>>, kind_name: &'static str, thread: usize, seq: usize, op: OtherOp, tag: &'static str) {
    match op {
        OtherOp::Send(entry) => {
            let id = event_id(thread, seq);
            let inv = ctx::stamp();
            ctx::op_mark(ctx::intern(format!("{}:{}[{}]", kind_name, entry.name(), tag)));
            let (accepted, intact, invoked) = do_send(ch, entry, id);
            ctx::op_mark("");
            let ret = ctx::stamp();
            ctx::trace(|| format!("thread {} {}({:#x}) -> {}", thread, entry.name(), id, accepted));
            shared.lock().unwrap().events.push(Ev { thread, kind: EvKind::SendOp(entry), id, inv, ret, accepted, ended: false, intact, setter_invoked_on_reject: invoked, addr: 0, wakes_delivered: 0, wake_misses: 0 });
        }
        OtherOp::Pending => {
            ctx::op_mark(ctx::intern(format!("{}:pending_items_count[{}]", kind_name, tag)));
            let _ = ch.pending();
            ctx::op_mark("");
        }
        OtherOp::Flush => {
            ctx::op_mark(ctx::intern(format!("{}:flush[{}]", kind_name, tag)));
            let _ = harness::block_on_sim(ch.flush(Duration::ZERO), |_| true);
            ctx::op_mark("");
        }
    }
}

fn suspend_body(p: &SuspendParams) {
    harness::reset();
    let kind = p.kind;
    let kind_name = kind.name();
    let key = |oracle: &str| format!("suspend/{}/{}", kind_name, oracle);
    let ch: ChanArc = Arc::new(chan::make::<Tracked>(kind, p.buffer, p.max_streams, "unused"));
    let shared = Arc::new(HLock::new(Shared { events: vec![], drops: vec![], producers_active: 0 }));
    let state = Arc::new(HLock::new(SuspState { suspended_now: vec![false; p.suspended.len()], idle: vec![false; p.suspended.len()], finished: vec![None; p.suspended.len()], thread_done: vec![false; p.suspended.len()], release: false }));
    let mut drivers = vec![];
    let mut driver_handles = vec![];
    for s in 0..p.streams {
        let stream = ch.create_stream();
        let d = harness::new_driver();
        drivers.push(d);
        let shared2 = Arc::clone(&shared);
        let cfg = DriverCfg { hold: 0, spurious_poll: 0, waker_churn: false };
        let thread_no = 50 + s;
        driver_handles.push(shuttle::thread::spawn(move || driver_thread(stream, shared2, d, thread_no, cfg)));
    }
    // ---- the suspended senders: each on its own simulated thread, which parks (is not runnable) while the setter is suspended
    let mut susp_handles = vec![];
    let mut susp_threads: Vec<Arc<HLock<Option<shuttle::thread::Thread>>>> = vec![];
    for (i, how) in p.suspended.iter().enumerate() {
        let (ch2, shared2, state2, how) = (Arc::clone(&ch), Arc::clone(&shared), Arc::clone(&state), *how);
        let same_thread_ops = if i == 0 { p.same_thread_ops.clone() } else { vec![] };
        let me: Arc<HLock<Option<shuttle::thread::Thread>>> = Arc::new(HLock::new(None));
        susp_threads.push(Arc::clone(&me));
        susp_handles.push(shuttle::thread::spawn(move || {
            *me.lock().unwrap() = Some(shuttle::thread::current());
            let thread = 10 + i;
            let id = event_id(thread, 0);
            let gate = Gate::new(match how {
                Suspension::Polls(n) => n,
                _ => u32::MAX,
            });
            let release_flag = Arc::clone(&gate.release);
            let polled = Arc::clone(&gate.polled);
            let inv = ctx::stamp();
            let mut fut = Some(ch2.send_with_async(id, gate));
            let waker = futures::task::noop_waker();
            let mut cx = std::task::Context::from_waker(&waker);
            let mut same_thread_seq = 1usize;
            let mut same_thread_ops = same_thread_ops.into_iter();
            let outcome = loop {
                let f = fut.as_mut().unwrap();
                // one poll of the sending task is an operation of its own: it returns (Pending) as soon as the setter suspends
                ctx::op_mark(ctx::intern(format!("{}:send_with_async[one poll]", kind_name)));
                let polled_now = f.as_mut().poll(&mut cx);
                ctx::op_mark("");
                match polled_now {
                    std::task::Poll::Ready(o) => break Some(o),
                    std::task::Poll::Pending => {
                        if ctx::aborted() {
                            std::mem::forget(fut.take());
                            return;
                        }
                        if polled.load(std::sync::atomic::Ordering::Relaxed) > 0 {
                            state2.lock().unwrap().suspended_now[i] = true;
                        }
                        // the same thread runs other work while this send is suspended (single-threaded executor)
                        if let Some(op) = same_thread_ops.next() {
                            run_other_op(&ch2, &shared2, kind_name, thread, same_thread_seq, op, "same_thread_while_suspended");
                            same_thread_seq += 1;
                            if ctx::aborted() {
                                std::mem::forget(fut.take());
                                return;
                            }
                            continue;
                        }
                        state2.lock().unwrap().idle[i] = true;
                        match how {
                            Suspension::Polls(_) => harness_yield(),
                            Suspension::UntilTheEnd | Suspension::Dropped => {
                                // not runnable until the orchestrator says so
                                loop {
                                    if state2.lock().unwrap().release || ctx::aborted() {
                                        break;
                                    }
                                    shuttle::thread::park();
                                }
                                if ctx::aborted() {
                                    std::mem::forget(fut.take());
                                    return;
                                }
                                if how == Suspension::Dropped {
                                    ctx::trace(|| format!("suspended sender {} drops its future", i));
                                    ctx::fault_fired("setter_cancel");
                                    ctx::op_mark(ctx::intern(format!("{}:drop(send_with_async future)", kind_name)));
                                    drop(fut.take());
                                    ctx::op_mark("");
                                    break None;
                                }
                                release_flag.store(true, std::sync::atomic::Ordering::Relaxed);
                            }
                        }
                    }
                }
            };
            let ret = ctx::stamp();
            let accepted = outcome.map(|o| o.accepted());
            if let Some(acc) = accepted {
                shared2.lock().unwrap().events.push(Ev { thread, kind: EvKind::SendOp(Entry::SendAsync { suspend: 0 }), id, inv, ret, accepted: acc, ended: false, intact: true, setter_invoked_on_reject: false, addr: 0, wakes_delivered: 0, wake_misses: 0 });
            }
            state2.lock().unwrap().finished[i] = Some(accepted.unwrap_or(false));
            // whatever this thread was still meant to do
            for op in same_thread_ops {
                run_other_op(&ch2, &shared2, kind_name, thread, same_thread_seq, op, "same_thread_after");
                same_thread_seq += 1;
                if ctx::aborted() {
                    return;
                }
            }
            state2.lock().unwrap().thread_done[i] = true;
        }));
    }
    // ---- wait until the long suspensions are in place (so that the other threads really run against a suspended send)
    let long: Vec<usize> = p.suspended.iter().enumerate().filter(|(_, s)| !matches!(s, Suspension::Polls(_))).map(|(i, _)| i).collect();
    let mut rounds = 0u32;
    while !long.iter().all(|i| state.lock().unwrap().suspended_now[*i] || state.lock().unwrap().finished[*i].is_some()) {
        if ctx::aborted() {
            return;
        }
        harness_yield();
        rounds += 1;
        if rounds > 60_000 {
            panic!("harness: the suspended senders never reached their suspension point");
        }
    }
    let any_long = long.iter().any(|i| state.lock().unwrap().finished[*i].is_none());
    let tag: &'static str = if any_long { "while_a_send_is_suspended" } else { "concurrently_with_a_suspending_send" };
    ctx::fault_fired(if any_long { "setter_suspend_forever" } else { "setter_suspend_k_polls" });
    // ---- the other threads
    let mut other_handles = vec![];
    for (t, ops) in p.others.iter().enumerate() {
        let (ch2, shared2, ops2) = (Arc::clone(&ch), Arc::clone(&shared), ops.clone());
        other_handles.push(shuttle::thread::spawn(move || {
            for (seq, op) in ops2.into_iter().enumerate() {
                run_other_op(&ch2, &shared2, kind_name, t, seq, op, tag);
                harness_point();
                if ctx::aborted() {
                    return;
                }
            }
        }));
    }
    for h in other_handles {
        let _ = h.join();
    }
    if ctx::aborted() {
        return;
    }
    // the work the senders' own threads do while their send is suspended is part of "meanwhile" too
    let mut rounds = 0u32;
    while !long.iter().all(|i| state.lock().unwrap().idle[*i] || state.lock().unwrap().finished[*i].is_some()) {
        if ctx::aborted() {
            return;
        }
        harness_yield();
        rounds += 1;
        if rounds > 60_000 {
            panic!("harness: a suspended sender's thread never finished its own work");
        }
    }
    // short suspensions finish by themselves -- and so does whatever their threads were still meant to send afterwards
    // (the verdict below must not be taken while such a send is in flight: its wake-up would still be on its way)
    let mut rounds = 0u32;
    while p.suspended.iter().enumerate().any(|(i, s)| matches!(s, Suspension::Polls(_)) && !state.lock().unwrap().thread_done[i]) {
        if ctx::aborted() {
            return;
        }
        harness_yield();
        rounds += 1;
        if rounds > 50_000 {
            panic!("harness: a k-polls suspended sender never finished");
        }
    }
    // ---- verdict: everything accepted meanwhile is delivered without waiting for the suspended send (harness-side flush,
    // so that a lost wake-up -- C04's subject -- cannot pose as a blocked delivery)
    let flush = |drivers: &Vec<usize>| loop {
        let before = shared.lock().unwrap().events.iter().filter(|e| e.kind == EvKind::Poll && e.accepted).count();
        for d in drivers.iter() {
            harness::kick(*d);
        }
        harness::wait_quiescent(drivers);
        let after = shared.lock().unwrap().events.iter().filter(|e| e.kind == EvKind::Poll && e.accepted).count();
        if after == before || ctx::aborted() {
            break;
        }
    };
    harness::wait_quiescent(&drivers);
    flush(&drivers);
    if ctx::aborted() {
        return;
    }
    let undelivered = |shared: &Arc<HLock<Shared>>| -> Vec<u32> {
        let sh = shared.lock().unwrap();
        sh.events
            .iter()
            .filter(|e| matches!(e.kind, EvKind::SendOp(_)) && e.accepted)
            .filter(|e| {
                if kind.is_uni() {
                    !sh.events.iter().any(|y| y.kind == EvKind::Poll && y.accepted && y.id == e.id)
                } else {
                    (0..p.streams).any(|s| !sh.events.iter().any(|y| y.thread == 50 + s && y.kind == EvKind::Poll && y.accepted && y.id == e.id))
                }
            })
            .map(|e| e.id)
            .collect()
    };
    let missing = undelivered(&shared);
    if !missing.is_empty() && p.streams > 0 {
        ctx::report(
            "C20",
            "delivery_waits_for_suspended_send",
            key(if any_long { "delivery_waits_for_suspended_send" } else { "undelivered" }),
            format!("events {:x?} were accepted while a send_with_async was suspended; every stream was woken until nothing more came out, and they have still not been delivered (pending_items_count={})", missing, ch.pending()),
        );
    }
    // ---- release (or cancel) the long suspensions; the completed send's event is delivered as well
    state.lock().unwrap().release = true;
    for t in susp_threads.iter() {
        if let Some(th) = t.lock().unwrap().clone() {
            th.unpark();
        }
    }
    for h in susp_handles {
        let _ = h.join();
    }
    if ctx::aborted() {
        return;
    }
    // "when the suspended send finally completes, its event is delivered as well": first without any help from the harness
    // (every stream is driven: re-polled whenever its waker is invoked) ...
    harness::wait_quiescent(&drivers);
    if ctx::aborted() {
        return;
    }
    let resumed_ids: Vec<u32> = (0..p.suspended.len()).filter(|i| !matches!(p.suspended[*i], Suspension::Polls(_))).map(|i| event_id(10 + i, 0)).collect();
    let stuck_before_flush: Vec<u32> = undelivered(&shared).into_iter().filter(|id| resumed_ids.contains(id)).collect();
    // ... then with it (every stream woken until nothing more comes out)
    flush(&drivers);
    if ctx::aborted() {
        return;
    }
    let missing = undelivered(&shared);
    if !stuck_before_flush.is_empty() && missing.is_empty() && p.streams > 0 && ctx::with_ctx(|c| c.violations.is_empty()).unwrap_or(true) {
        let shape = format!("ms{}s{}", p.max_streams, p.streams);
        ctx::report(
            "C20",
            "resumed_send_needs_an_extra_wake",
            key(&format!("{}/resumed_send_needs_an_extra_wake", shape)),
            format!("the suspended send(s) completed (accepted), every stream is driven and parked, and event(s) {:x?} stayed in the channel (pending_items_count was not 0) until the harness woke the streams: nobody was woken for them", stuck_before_flush),
        );
    }
    if !missing.is_empty() && p.streams > 0 && ctx::with_ctx(|c| c.violations.is_empty()).unwrap_or(true) {
        ctx::report("C20", "resumed_send_not_delivered", key("resumed_send_not_delivered"), format!("after the suspended send(s) completed and every stream was woken until nothing more came out, accepted events {:x?} have not been delivered", missing));
    }
    // after a cancelled (dropped) suspended send the channel still works: one more plain send is delivered
    if p.suspended.contains(&Suspension::Dropped) && p.streams > 0 {
        let id = event_id(30, 0);
        ctx::op_mark(ctx::intern(format!("{}:send[after_a_suspended_send_was_dropped]", kind_name)));
        let inv = ctx::stamp();
        let accepted = ch.send(id).accepted();
        let ret = ctx::stamp();
        ctx::op_mark("");
        shared.lock().unwrap().events.push(Ev { thread: 30, kind: EvKind::SendOp(Entry::Send), id, inv, ret, accepted, ended: false, intact: true, setter_invoked_on_reject: false, addr: 0, wakes_delivered: 0, wake_misses: 0 });
        flush(&drivers);
        if ctx::aborted() {
            return;
        }
        let missing = undelivered(&shared);
        if accepted && missing.contains(&id) {
            ctx::report("C20", "channel_unusable_after_cancelled_send", key("channel_unusable_after_cancelled_send"), format!("a send_with_async future was dropped while its setter was suspended; an event accepted afterwards ({:#x}) is never delivered", id));
        }
    }
    ch.cancel_all();
    for d in drivers.iter() {
        harness::stop_driver(*d);
    }
    for h in driver_handles {
        let _ = h.join();
    }
}

pub struct Suspend;

impl Scenario for Suspend {
    type P = SuspendParams;
    fn property(&self) -> &'static str {
        "C20"
    }
    fn name(&self) -> &'static str {
        "suspend"
    }
    fn engine(&self) -> &'static str {
        "T"
    }
    fn generate(&self, rng: &mut Rng, _tier: Tier) -> SuspendParams {
        let kind = *rng.pick(&[Kind::UniMoveAtomic, Kind::UniMoveFullSync, Kind::UniMoveCrossbeam, Kind::UniZcAtomic, Kind::UniZcFullSync, Kind::MultiArcAtomic, Kind::MultiArcFullSync, Kind::MultiArcCrossbeam, Kind::MultiOgreAtomic, Kind::MultiOgreFullSync]);
        let buffer = *rng.pick(&[4usize, 8]);
        let max_streams = *rng.pick(&[1usize, 2]);
        let streams = 1 + rng.below(max_streams as u64) as usize;
        let n_susp = 1 + rng.below(2) as usize;
        let suspended: Vec<Suspension> = (0..n_susp)
            .map(|_| match rng.below(5) {
                0 | 1 => Suspension::Polls(1 + rng.below(3) as u32),
                2 | 3 => Suspension::UntilTheEnd,
                _ => Suspension::Dropped,
            })
            .collect();
        // at most BUFFER_SIZE - 1 - (suspended sends) further events: nobody ever waits for room
        let mut budget = buffer - 1 - n_susp;
        let mut draw_ops = |rng: &mut Rng, max: usize, budget: &mut usize| -> Vec<OtherOp> {
            let n = rng.below(max as u64 + 1) as usize;
            let mut v = vec![];
            for _ in 0..n {
                if rng.chance(1, 5) || *budget == 0 {
                    v.push(if rng.chance(1, 3) { OtherOp::Flush } else { OtherOp::Pending });
                } else {
                    *budget -= 1;
                    let e = loop {
                        let e = if kind.is_uni() { crate::scn_uni::draw_entry(rng, kind) } else { crate::scn_multi::draw_multi_entry(rng, kind) };
                        // the other operations are plain, synchronous ones (a second suspended send is `suspended[1]`)
                        if !matches!(e, Entry::SendAsync { .. }) {
                            break e;
                        }
                    };
                    v.push(OtherOp::Send(e));
                }
            }
            v
        };
        let same_thread_ops = if rng.chance(1, 2) { draw_ops(rng, 2, &mut budget) } else { vec![] };
        let n_others = 1 + rng.below(2) as usize;
        let mut others: Vec<Vec<OtherOp>> = (0..n_others).map(|_| draw_ops(rng, 3, &mut budget)).collect();
        if others.iter().all(|o| o.is_empty()) && same_thread_ops.is_empty() {
            others[0].push(OtherOp::Send(Entry::Send));
        }
        let mut sched = SchedSpec::draw(rng);
        // the verdict "an operation does not return within B of its own scheduling points" needs B to dominate the longest
        // legitimate wait: no injected stalls, a small starvation bound
        sched.stall = 0;
        sched.starvation = 64;
        sched.op_step_bound = 3_000;
        sched.step_cap = 200_000;
        SuspendParams { sched, kind, buffer, max_streams, streams, suspended, same_thread_ops, others }
    }
    fn sched<'a>(&self, p: &'a SuspendParams) -> &'a SchedSpec {
        &p.sched
    }
    fn with_sched(&self, p: &SuspendParams, s: SchedSpec) -> SuspendParams {
        let mut q = p.clone();
        let (bound, cap) = (p.sched.op_step_bound, p.sched.step_cap);
        q.sched = s;
        q.sched.op_step_bound = bound;
        q.sched.step_cap = cap;
        q.sched.stall = 0;
        q.sched.starvation = 64;
        q
    }
    fn key_context(&self, p: &SuspendParams) -> String {
        format!("{}/", p.kind.name())
    }
    fn body(&self, p: &SuspendParams) -> Option<Body> {
        let p2 = p.clone();
        Some(Arc::new(move || suspend_body(&p2)))
    }
    fn shrink(&self, p: &SuspendParams) -> Vec<SuspendParams> {
        let mut out = vec![];
        if p.suspended.len() > 1 {
            for i in 0..p.suspended.len() {
                let mut q = p.clone();
                q.suspended.remove(i);
                out.push(q);
            }
        }
        for i in 0..p.others.len() {
            if p.others.len() > 1 || !p.same_thread_ops.is_empty() {
                let mut q = p.clone();
                q.others.remove(i);
                out.push(q);
            }
            for j in (0..p.others[i].len()).rev() {
                let mut q = p.clone();
                q.others[i].remove(j);
                out.push(q);
            }
        }
        for j in (0..p.same_thread_ops.len()).rev() {
            let mut q = p.clone();
            q.same_thread_ops.remove(j);
            out.push(q);
        }
        if p.streams > 1 {
            let mut q = p.clone();
            q.streams -= 1;
            out.push(q);
        }
        if p.sched.weak_cas > 0 {
            let mut q = p.clone();
            q.sched.weak_cas = 0;
            out.push(q);
        }
        out
    }
    fn size(&self, p: &SuspendParams) -> u64 {
        p.others.iter().map(|o| o.len() as u64).sum::<u64>() * 3 + p.same_thread_ops.len() as u64 * 3 + p.suspended.len() as u64 * 4 + p.streams as u64
    }
    fn assumptions(&self) -> Vec<String> {
        vec![
            "'completes in a bounded number of its own steps' is judged as: at most 3000 of the operation's own scheduling points, under a scheduler without injected stalls and with a starvation bound of 64 decisions -- every legitimate wait (another *runnable* thread finishing its publication, a lock holder that is runnable) ends within a few hundred".into(),
            "a long-suspended sender's thread is parked (not runnable) while its setter is suspended; it is the only non-runnable thread".into(),
            "fewer events than BUFFER_SIZE in total, so that no operation ever waits for room by design".into(),
            "delivery is judged after a harness-side flush (every stream woken until nothing more comes out), so that a lost wake-up (C04) cannot pose as a blocked delivery".into(),
            "the log channel is excluded (its send_with_async is todo!() upstream); close() of whole Uni/Multi objects is not part of this scenario (cancel_all_streams ends every run)".into(),
        ]
    }
}
