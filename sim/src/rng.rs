//! The one PRNG of the simulator: everything (workload, schedule, faults) is derived from one integer.

#[derive(Clone, Debug)]
pub struct Rng(u64);

#[inline]
pub fn splitmix64(mut x: u64) -> u64 {
    x = x.wrapping_add(0x9E3779B97F4A7C15);
    let mut z = x;
    z = (z ^ (z >> 30)).wrapping_mul(0xBF58476D1CE4E5B9);
    z = (z ^ (z >> 27)).wrapping_mul(0x94D049BB133111EB);
    z ^ (z >> 31)
}

/// run seed = f(VERIF_SEED, property tag, run index)
pub fn run_seed(verif_seed: u64, tag: &str, run_index: u64) -> u64 {
    let mut h = splitmix64(verif_seed ^ 0xA5A5_5A5A_1234_5678);
    for b in tag.bytes() {
        h = splitmix64(h ^ b as u64);
    }
    splitmix64(h ^ splitmix64(run_index))
}

impl Rng {
    pub fn new(seed: u64) -> Self {
        Rng(splitmix64(seed) | 1)
    }
    #[inline]
    pub fn next(&mut self) -> u64 {
        // xorshift64*
        let mut x = self.0;
        x ^= x >> 12;
        x ^= x << 25;
        x ^= x >> 27;
        self.0 = x;
        x.wrapping_mul(0x2545F4914F6CDD1D)
    }
    /// uniform in 0..n (n > 0)
    #[inline]
    pub fn below(&mut self, n: u64) -> u64 {
        debug_assert!(n > 0);
        ((self.next() >> 11) as u128 * n as u128 >> 53) as u64
    }
    #[inline]
    pub fn range(&mut self, lo: u64, hi_inclusive: u64) -> u64 {
        lo + self.below(hi_inclusive - lo + 1)
    }
    /// true with probability num/den
    #[inline]
    pub fn chance(&mut self, num: u64, den: u64) -> bool {
        self.below(den) < num
    }
    pub fn pick<'a, T>(&mut self, items: &'a [T]) -> &'a T {
        &items[self.below(items.len() as u64) as usize]
    }
    pub fn fork(&mut self) -> Rng {
        Rng::new(self.next())
    }
}
