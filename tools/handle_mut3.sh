#!/bin/bash
# tools/handle_mut3.sh <Cxx> [<extra Cxx> ...] : confirm a sub-agent's seeded change (tools/confirm_mut3.sh) in its scratch worktree
# /tmp/mut7/<Cxx>, then run the property's quick check against it (tools/sweep_one.sh). Triage helper, never a registered check.
P="$1"; shift
W=/tmp/mut7/$P
/verif/tools/confirm_mut3.sh "$W" "$P" > "$W/_out/handle.log" 2>&1
cd /verif && SWEEP_JOBS=6 SWEEP_WORKERS=8 tools/sweep_one.sh "$W/_out/$P.patch.diff" "m3-$P" - "$P" "$@" >> "$W/_out/handle.log" 2>&1
echo "HANDLED $P" >> "$W/_out/handle.log"
