//! Deterministic simulation with fault injection for zertyz/reactive-mutiny -- see /verif/DESIGN.md
//!
//!   sim check <Cxx> [quick|thorough]      run the check of one property (VERIF_SEED, VERIF_BUDGET_S honoured)
//!   sim replay <file> [--quiet]           re-execute a replay file: exit 1 if the recorded violation is reproduced
#![allow(dead_code)]

mod chan;
mod crashlog;
mod ctx;
mod engine_t;
mod framework;
mod harness;
mod lin;
mod scn_close;
mod scn_cont;
mod scn_ctl;
mod scn_exec;
mod scn_full;
mod scn_held;
mod scn_hist;
mod scn_life;
mod scn_multi;
mod scn_oldies;
mod scn_own;
mod payload;
mod rng;
mod scn_uni;

use framework::{check_scenarios, CheckCfg, Part, PartRunner, ReplayFile, Tier};
use std::os::unix::process::ExitStatusExt;
use std::sync::Arc;

const RULE_T: &str = "one evaluation = one simulated run (workload, sizes, fault rates and schedule all drawn from run_seed = f(VERIF_SEED, property, run index)); a run is non-trivial if the scheduler preempted a thread inside an operation at least once; distinct = distinct context-switch signatures (hash of the sequence of (from-thread, to-thread, code site) over all context switches of the run), counted with a hash set merged across workers";

const RULE_D: &str = "one evaluation = one simulated run under virtual time (tokio current-thread runtime with paused clock; workload, delays, limits, timeouts and the instants of close/cancel all drawn from run_seed = f(VERIF_SEED, property, run index)); the runtime is deterministic, so distinct = distinct generated workloads (hash of all workload parameters, counted with a hash set merged across workers); non-trivial = at least two pipeline items";

const RULE_TD: &str = "two scenario families. (T) one evaluation = one simulated run (workload, sizes, fault rates and schedule all drawn from run_seed = f(VERIF_SEED, property, run index)); non-trivial = the scheduler preempted a thread inside an operation at least once; distinct = distinct context-switch signatures (hash of the sequence of (from-thread, to-thread, code site) over all context switches of the run). (D) one evaluation = one simulated run under virtual time (tokio current-thread runtime with paused clock); the runtime is deterministic, so distinct = distinct generated workloads (hash of all workload parameters); non-trivial = at least two events. Both counted with hash sets merged across workers and summed";

const RULE_H: &str = "one evaluation = one single-threaded history (op sequence, channel kind, sizes, sequence origin all drawn from run_seed = f(VERIF_SEED, property, run index)) executed step by step against an executable reference model, and a second time from a sequence origin next to the u32 wrap where the scenario says so; distinct = distinct histories (hash of all parameters, hash set merged across workers); non-trivial = at least three operations";

const RULE_TH: &str = "two scenario families. (T) one evaluation = one simulated run (workload, sizes, fault rates and schedule all drawn from run_seed = f(VERIF_SEED, property, run index)); non-trivial = the scheduler preempted a thread inside an operation at least once; distinct = distinct context-switch signatures (hash of the sequence of (from-thread, to-thread, code site) over all context switches of the run). (H) one evaluation = one single-threaded history executed step by step against an executable reference model; non-trivial = at least three operations; distinct = distinct histories (hash of all parameters). Both counted with hash sets merged across workers and summed";

struct PropertyCheck {
    parts: Vec<Box<dyn PartRunner>>,
    rule: &'static str,
    quick_s: u64,
    thorough_s: u64,
    assumptions: Vec<String>,
    /// run the same check a second time in the build with overflow checks + debug assertions
    checked_build: bool,
}

fn registry(property: &str) -> Option<PropertyCheck> {
    Some(match property {
        "C01" => PropertyCheck { parts: vec![Box::new(Part(Arc::new(scn_uni::C01)))], rule: RULE_T, quick_s: 25, thorough_s: 900, assumptions: vec![], checked_build: false },
        "C02" => PropertyCheck {
            parts: vec![Box::new(Part(Arc::new(scn_uni::C02Uni))), Box::new(Part(Arc::new(scn_cont::RingLin { property: "C02", kinds: &scn_cont::RINGS })))],
            rule: RULE_T,
            quick_s: 30,
            thorough_s: 900,
            assumptions: vec![],
            checked_build: false,
        },
        "C06" => PropertyCheck {
            parts: vec![Box::new(Part(Arc::new(scn_exec::ObjExec { property: "C06", multi: false }))), Box::new(Part(Arc::new(scn_exec::ObjExec { property: "C06", multi: true }))), Box::new(Part(Arc::new(scn_oldies::OldiesExec { property: "C06" }))), Box::new(Part(Arc::new(scn_close::CloseConc)))],
            rule: RULE_TD,
            quick_s: 44,
            thorough_s: 900,
            assumptions: vec![],
            checked_build: false,
        },
        "C11" => PropertyCheck { parts: vec![Box::new(Part(Arc::new(scn_exec::ExecRaw { property: "C11" })))], rule: RULE_D, quick_s: 20, thorough_s: 600, assumptions: vec![], checked_build: false },
        "C12" => PropertyCheck { parts: vec![Box::new(Part(Arc::new(scn_exec::ExecRaw { property: "C12" }))), Box::new(Part(Arc::new(scn_exec::ObjExec { property: "C12", multi: false }))), Box::new(Part(Arc::new(scn_exec::ObjExec { property: "C12", multi: true }))), Box::new(Part(Arc::new(scn_oldies::OldiesExec { property: "C12" })))], rule: RULE_D, quick_s: 28, thorough_s: 600, assumptions: vec![], checked_build: false },
        "C13" => PropertyCheck { parts: vec![Box::new(Part(Arc::new(scn_cont::AllocConc)))], rule: RULE_T, quick_s: 25, thorough_s: 900, assumptions: vec![], checked_build: false },
        "C18" => PropertyCheck { parts: vec![Box::new(Part(Arc::new(scn_cont::RingLin { property: "C18", kinds: &scn_cont::STANDALONE })))], rule: RULE_T, quick_s: 25, thorough_s: 900, assumptions: vec![], checked_build: false },
        "C03" => PropertyCheck { parts: vec![Box::new(Part(Arc::new(scn_multi::C03)))], rule: RULE_T, quick_s: 25, thorough_s: 900, assumptions: vec![], checked_build: false },
        "C08" => PropertyCheck { parts: vec![Box::new(Part(Arc::new(scn_hist::Hist { property: "C08", flavour: scn_hist::Flavour::Reservations }))), Box::new(Part(Arc::new(scn_held::ReserveConc)))], rule: RULE_TH, quick_s: 40, thorough_s: 600, assumptions: vec![], checked_build: true },
        "C10" => PropertyCheck { parts: vec![Box::new(Part(Arc::new(scn_hist::Hist { property: "C10", flavour: scn_hist::Flavour::Lifetimes }))), Box::new(Part(Arc::new(scn_life::ListenerConc))), Box::new(Part(Arc::new(scn_multi::C10Recycle)))], rule: RULE_TH, quick_s: 45, thorough_s: 600, assumptions: vec![], checked_build: false },
        "C15" => PropertyCheck { parts: vec![Box::new(Part(Arc::new(scn_hist::Hist { property: "C15", flavour: scn_hist::Flavour::WrapAround })))], rule: RULE_H, quick_s: 20, thorough_s: 600, assumptions: vec![], checked_build: true },
        "C16" => PropertyCheck { parts: vec![Box::new(Part(Arc::new(scn_hist::Hist { property: "C16", flavour: scn_hist::Flavour::Rejections }))), Box::new(Part(Arc::new(scn_held::RejectConc)))], rule: RULE_TH, quick_s: 40, thorough_s: 600, assumptions: vec![], checked_build: false },
        "C05" => PropertyCheck { parts: vec![Box::new(Part(Arc::new(scn_hist::Hist { property: "C05", flavour: scn_hist::Flavour::Teardown }))), Box::new(Part(Arc::new(scn_held::HeldConc)))], rule: RULE_TH, quick_s: 40, thorough_s: 900, assumptions: vec![], checked_build: false },
        "C09" => PropertyCheck { parts: vec![Box::new(Part(Arc::new(scn_multi::C09))), Box::new(Part(Arc::new(scn_oldies::OldiesExec { property: "C09" })))], rule: RULE_TD, quick_s: 32, thorough_s: 900, assumptions: vec![], checked_build: false },
        "C17" => PropertyCheck { parts: vec![Box::new(Part(Arc::new(scn_multi::C17))), Box::new(Part(Arc::new(scn_full::FullListener)))], rule: RULE_T, quick_s: 36, thorough_s: 900, assumptions: vec![], checked_build: false },
        "C07" => PropertyCheck { parts: vec![Box::new(Part(Arc::new(scn_ctl::Cancel)))], rule: RULE_T, quick_s: 30, thorough_s: 900, assumptions: vec![], checked_build: false },
        "C20" => PropertyCheck { parts: vec![Box::new(Part(Arc::new(scn_ctl::Suspend)))], rule: RULE_T, quick_s: 30, thorough_s: 900, assumptions: vec![], checked_build: false },
        "C14" => PropertyCheck { parts: vec![Box::new(Part(Arc::new(scn_own::Handles)))], rule: RULE_T, quick_s: 25, thorough_s: 900, assumptions: vec![], checked_build: false },
        "C19" => PropertyCheck { parts: vec![Box::new(Part(Arc::new(scn_own::Metrics)))], rule: RULE_T, quick_s: 20, thorough_s: 600, assumptions: vec![], checked_build: false },
        "C04" => PropertyCheck { parts: vec![Box::new(Part(Arc::new(scn_uni::C04Uni))), Box::new(Part(Arc::new(scn_multi::C04Multi)))], rule: RULE_T, quick_s: 40, thorough_s: 900, assumptions: vec![], checked_build: false },
        _ => return None,
    })
}

fn all_parts() -> Vec<Box<dyn PartRunner>> {
    let mut v: Vec<Box<dyn PartRunner>> = vec![];
    for p in ["C01", "C02", "C03", "C04", "C05", "C06", "C08", "C10", "C15", "C16", "C09", "C17", "C11", "C12", "C13", "C18", "C14", "C19", "C07", "C20"] {
        if let Some(pc) = registry(p) {
            v.extend(pc.parts);
        }
    }
    v
}

/// shuttle-engine prints two lines to stderr whenever a simulated task unwinds (which is how a run is stopped on a
/// verdict): filter exactly those lines out of this process' stderr, pass everything else through
fn filter_stderr() {
    use std::io::{BufRead, Write};
    use std::os::fd::FromRawFd;
    unsafe {
        let mut fds = [0i32; 2];
        if libc::pipe(fds.as_mut_ptr()) != 0 {
            return;
        }
        let real = libc::dup(2);
        if real < 0 || libc::dup2(fds[1], 2) < 0 {
            return;
        }
        libc::close(fds[1]);
        let reader = std::fs::File::from_raw_fd(fds[0]);
        let mut real = std::fs::File::from_raw_fd(real);
        let handle = std::thread::spawn(move || {
            for line in std::io::BufReader::new(reader).split(b'\n').flatten() {
                if line.starts_with(b"test panicked in task") || line.starts_with(b"Task failed, serializing schedule") {
                    continue;
                }
                let _ = real.write_all(&line);
                let _ = real.write_all(b"\n");
            }
        });
        STDERR_FILTER.with(|s| *s.borrow_mut() = Some(handle));
    }
}

thread_local! {
    static STDERR_FILTER: std::cell::RefCell<Option<std::thread::JoinHandle<()>>> = const { std::cell::RefCell::new(None) };
}

/// flushes the stderr filter (closes the write end so that the filter thread drains and ends), then exits
fn exit(code: i32) -> ! {
    if let Some(h) = STDERR_FILTER.with(|s| s.borrow_mut().take()) {
        unsafe { libc::close(2) };
        let _ = h.join();
    }
    std::process::exit(code)
}

fn signal_name(sig: i32) -> &'static str {
    match sig {
        libc::SIGSEGV => "SIGSEGV",
        libc::SIGABRT => "SIGABRT",
        libc::SIGBUS => "SIGBUS",
        libc::SIGILL => "SIGILL",
        libc::SIGFPE => "SIGFPE",
        libc::SIGKILL => "SIGKILL",
        _ => "signal",
    }
}

/// Runs the check in a child process and survives its death: a run that kills the process (memory corruption in the code
/// under test) is attributed through the crash log, confirmed by re-running it alone, reported as a violation, and skipped
/// when the check is started again to finish the batch.
fn supervise(property: &str, tier: Tier, pc: &PropertyCheck, cfg: &CheckCfg) -> i32 {
    let root = framework::verif_root();
    let replay_dir = root.join("replays");
    std::fs::create_dir_all(&replay_dir).ok();
    let log_path = replay_dir.join(format!(".crashlog-{}", std::process::id()));
    let exe = std::env::current_exe().expect("no current exe");
    let known = framework::load_known_findings();
    let mut skip: Vec<(usize, u64)> = vec![];
    let mut crashes: Vec<(usize, u64, i32)> = vec![];
    let mut child_code = 2;
    for _attempt in 0..4 {
        if crashlog::create(&log_path).is_err() {
            eprintln!("HARNESS-ERROR: cannot create {}", log_path.display());
            return 2;
        }
        let skip_arg = skip.iter().map(|(p, i)| format!("{}:{}", p, i)).collect::<Vec<_>>().join(",");
        let child = std::process::Command::new(&exe).args(["check", property, tier.name()]).env("VERIF_WORKER_CHILD", "1").env("VERIF_CRASHLOG", &log_path).env("VERIF_SKIP_RUNS", &skip_arg).spawn();
        let mut child = match child {
            Ok(c) => c,
            Err(e) => {
                eprintln!("HARNESS-ERROR: cannot start the worker process: {}", e);
                return 2;
            }
        };
        // ---- watch it: a run that blocks the process for good (a wait outside every instrumented seam -- e.g. a blocking
        // call into a dependency) shows as a worker that stays on the same run for far longer than any run can take
        let hang_after = std::time::Duration::from_secs(std::env::var("VERIF_HANG_S").ok().and_then(|s| s.parse().ok()).unwrap_or(25));
        let overall_deadline = std::time::Instant::now() + cfg.budget * 4 + std::time::Duration::from_secs(600);
        let mut seen: std::collections::BTreeMap<usize, ((usize, u64), std::time::Instant)> = Default::default();
        let mut hung: Vec<(usize, u64)> = vec![];
        let status = loop {
            match child.try_wait() {
                Ok(Some(st)) => break Some(st),
                Ok(None) => {}
                Err(e) => {
                    eprintln!("HARNESS-ERROR: cannot wait for the worker process: {}", e);
                    return 2;
                }
            }
            std::thread::sleep(std::time::Duration::from_millis(500));
            let now = std::time::Instant::now();
            let busy = crashlog::read_busy_slots(&log_path);
            seen.retain(|slot, (run, _)| busy.iter().any(|(s, p, i)| s == slot && (*p, *i) == *run));
            for (slot, p, i) in busy {
                seen.entry(slot).or_insert(((p, i), now));
            }
            hung = seen.values().filter(|(_, since)| now.duration_since(*since) > hang_after).map(|(run, _)| *run).filter(|c| !skip.contains(c)).collect();
            hung.sort_unstable();
            hung.dedup();
            if !hung.is_empty() || now > overall_deadline {
                let _ = child.kill();
                let _ = child.wait();
                break None;
            }
        };
        let (sig, candidates): (i32, Vec<(usize, u64)>) = match status {
            Some(status) => {
                if let Some(code) = status.code() {
                    child_code = code;
                    break;
                }
                (status.signal().unwrap_or(0), crashlog::read_busy(&log_path).into_iter().filter(|c| !skip.contains(c)).collect())
            }
            None => {
                if hung.is_empty() {
                    eprintln!("HARNESS-ERROR: the worker process did not finish within its deadline and no run in progress explains it");
                    let _ = std::fs::remove_file(&log_path);
                    return 2;
                }
                (-1, hung.clone())
            }
        };
        if sig == -1 {
            eprintln!("the worker process stopped making progress: run(s) {:?} (part, index) have been executing for more than {} s: re-running each alone", candidates, hang_after.as_secs());
        } else {
            eprintln!("the worker process died with {} while executing run(s) {:?} (part, index): re-running each alone", signal_name(sig), candidates);
        }
        let mut culprits = vec![];
        for (part, idx) in candidates {
            let st = std::process::Command::new(&exe)
                .args(["check", property, tier.name()])
                .env("VERIF_WORKER_CHILD", "1")
                .env("VERIF_ONLY_PART", part.to_string())
                .env("VERIF_ONLY_INDEX", idx.to_string())
                .env("VERIF_SKIP_DET", "1")
                .env("VERIF_NO_EVIDENCE", "1")
                .env("VERIF_WORKERS", "1")
                .stdout(std::process::Stdio::null())
                .stderr(std::process::Stdio::null())
                .spawn();
            if let Ok(mut c) = st {
                let deadline = std::time::Instant::now() + hang_after;
                loop {
                    match c.try_wait() {
                        Ok(Some(st)) => {
                            if st.code().is_none() {
                                culprits.push((part, idx, st.signal().unwrap_or(0)));
                            }
                            break;
                        }
                        Ok(None) => {
                            if std::time::Instant::now() > deadline {
                                let _ = c.kill();
                                let _ = c.wait();
                                culprits.push((part, idx, -1));
                                break;
                            }
                            std::thread::sleep(std::time::Duration::from_millis(200));
                        }
                        Err(_) => break,
                    }
                }
            }
        }
        if culprits.is_empty() {
            eprintln!("HARNESS-ERROR: the worker process {} and none of the runs in progress does so when run alone (not attributable; nothing is reported as a violation)", if sig == -1 { "hung".to_string() } else { format!("died with {}", signal_name(sig)) });
            let _ = std::fs::remove_file(&log_path);
            return 2;
        }
        for (part, idx, s) in culprits {
            skip.push((part, idx));
            crashes.push((part, idx, s));
        }
    }
    let _ = std::fs::remove_file(&log_path);
    let mut new_crash_violations = 0;
    for (part, idx, sig) in crashes.iter() {
        let Some(runner) = pc.parts.get(*part) else { continue };
        let (params, context) = runner.params_of(cfg, *idx);
        let v = if *sig == -1 {
            ctx::Violation { property: property.to_string(), oracle: "process_hung".into(), key: format!("{}/process_hang/{}blocked_forever", runner.name(), context), detail: "executing this run blocks the process for good: an operation of the code under test waits outside every instrumented seam (e.g. a blocking call into a dependency) for something that can never happen in this run; confirmed by re-running it alone in a fresh process".into() }
        } else {
            ctx::Violation { property: property.to_string(), oracle: "process_crashed".into(), key: format!("{}/process_crash/{}{}", runner.name(), context, signal_name(*sig)), detail: format!("executing this run kills the process with {} (memory corrupted or freed memory used by the code under test); confirmed by re-running it alone in a fresh process", signal_name(*sig)) }
        };
        let key = v.key.clone();
        if let Some(kf) = framework::match_known(&known, &v) {
            println!("KNOWN-FINDING: property={} {} -- {}", kf.property, kf.key, kf.what);
            continue;
        }
        let file = ReplayFile { property: property.to_string(), scenario: runner.name().into(), engine: runner.engine().into(), params, decisions: vec![], violation: v.clone(), verif_seed: cfg.verif_seed, run_index: *idx, repo_commit: framework::repo_commit(), minimised_from: serde_json::json!({"note": "a run that kills or blocks the process is reported as generated (no minimisation)"}), trace: vec![] };
        let path = replay_dir.join(format!("{}-{}-{}.json", property, framework::sanitize(&key), idx));
        if std::fs::write(&path, serde_json::to_string_pretty(&file).unwrap()).is_err() {
            eprintln!("HARNESS-ERROR: cannot write {}", path.display());
            return 2;
        }
        println!("VIOLATION property={} replay={}", property, path.display());
        println!("  oracle={} key={} :: {}", v.oracle, v.key, v.detail);
        new_crash_violations += 1;
    }
    // the evidence file was written by the last worker process: add what only the supervisor knows
    if !crashes.is_empty() {
        let ev_path = root.join("evidence").join(match std::env::var("VERIF_EVIDENCE_TAG") { Ok(tag) => format!("{}.{}.json", property, tag), Err(_) => format!("{}.json", property) });
        if let Ok(text) = std::fs::read_to_string(&ev_path) {
            if let Ok(mut ev) = serde_json::from_str::<serde_json::Value>(&text) {
                ev["coverage"]["runs_that_killed_or_blocked_the_worker_process"] = serde_json::json!(crashes.iter().map(|(p, i, s)| serde_json::json!({"part": p, "run_index": i, "how": if *s == -1 { "blocked forever" } else { signal_name(*s) }})).collect::<Vec<_>>());
                if let Some(n) = ev["violations"].as_u64() {
                    ev["violations"] = serde_json::json!(n + new_crash_violations);
                }
                let _ = std::fs::write(&ev_path, serde_json::to_string_pretty(&ev).unwrap());
            }
        }
    }
    if new_crash_violations > 0 {
        1
    } else {
        child_code
    }
}

fn main() {
    filter_stderr();
    let args: Vec<String> = std::env::args().collect();
    if args.len() < 2 {
        eprintln!("usage: sim check <Cxx> [quick|thorough] | sim replay <file> [--quiet]");
        std::process::exit(2);
    }
    match args[1].as_str() {
        "check" => {
            let property = args.get(2).cloned().unwrap_or_default();
            let tier = match args.get(3).map(|s| s.as_str()).or(std::env::var("VERIF_TIER").ok().as_deref()) {
                Some("thorough") => Tier::Thorough,
                _ => Tier::Quick,
            };
            let Some(pc) = registry(&property) else {
                eprintln!("harness error: no check registered for property {}", property);
                std::process::exit(2);
            };
            let cfg = CheckCfg::from_env(tier, pc.quick_s, pc.thorough_s);
            if std::env::var_os("VERIF_WORKER_CHILD").is_none() && std::env::var_os("VERIF_CHILD").is_none() && std::env::var_os("VERIF_NO_SUPERVISOR").is_none() {
                let code = supervise(&property, tier, &pc, &cfg);
                exit(code);
            }
            crashlog::open_from_env();
            println!("{} {}: VERIF_SEED={} budget={}s workers={}", property, tier.name(), cfg.verif_seed, cfg.budget.as_secs(), cfg.workers);
            let outcome = check_scenarios(&property, &cfg, pc.parts, pc.rule, pc.assumptions, pc.checked_build);
            exit(outcome.exit_code);
        }
        "replay" => {
            let path = args.get(2).cloned().unwrap_or_default();
            let quiet = args.iter().any(|a| a == "--quiet");
            let text = match std::fs::read_to_string(&path) {
                Ok(t) => t,
                Err(e) => {
                    eprintln!("harness error: cannot read {}: {}", path, e);
                    std::process::exit(2);
                }
            };
            let file: ReplayFile = match serde_json::from_str(&text) {
                Ok(f) => f,
                Err(e) => {
                    eprintln!("harness error: cannot parse {}: {}", path, e);
                    std::process::exit(2);
                }
            };
            let parts = all_parts();
            let Some(part) = parts.iter().find(|p| p.name() == file.scenario && p.property() == file.property).or_else(|| parts.iter().find(|p| p.name() == file.scenario)) else {
                eprintln!("harness error: unknown scenario {}", file.scenario);
                std::process::exit(2);
            };
            if file.violation.oracle == "process_hung" {
                if std::env::var_os("VERIF_WORKER_CHILD").is_some() {
                    let _ = part.execute_params(&file.params);
                    exit(0);
                }
                let c = std::process::Command::new(std::env::current_exe().unwrap()).args(["replay", &path, "--quiet"]).env("VERIF_WORKER_CHILD", "1").stdout(std::process::Stdio::null()).stderr(std::process::Stdio::null()).spawn();
                let Ok(mut c) = c else {
                    eprintln!("harness error: cannot start the replay process");
                    exit(2);
                };
                let deadline = std::time::Instant::now() + std::time::Duration::from_secs(std::env::var("VERIF_HANG_S").ok().and_then(|s| s.parse().ok()).unwrap_or(25));
                loop {
                    match c.try_wait() {
                        Ok(Some(_)) => {
                            if !quiet {
                                println!("not reproduced: the run completes");
                            }
                            exit(0);
                        }
                        Ok(None) => {
                            if std::time::Instant::now() > deadline {
                                let _ = c.kill();
                                let _ = c.wait();
                                if !quiet {
                                    println!("VIOLATION property={} replay={}", file.property, path);
                                    println!("  reproduced: the run blocks the process for good [{}]", file.violation.key);
                                }
                                exit(1);
                            }
                            std::thread::sleep(std::time::Duration::from_millis(200));
                        }
                        Err(e) => {
                            eprintln!("harness error: {}", e);
                            exit(2);
                        }
                    }
                }
            }
            if file.violation.oracle == "process_crashed" {
                if std::env::var_os("VERIF_WORKER_CHILD").is_some() {
                    // the child: just execute the run (and die, if the crash reproduces)
                    let _ = part.execute_params(&file.params);
                    exit(0);
                }
                let st = std::process::Command::new(std::env::current_exe().unwrap()).args(["replay", &path, "--quiet"]).env("VERIF_WORKER_CHILD", "1").stdout(std::process::Stdio::null()).stderr(std::process::Stdio::null()).status();
                match st {
                    Ok(st) if st.code().is_none() => {
                        if !quiet {
                            println!("VIOLATION property={} replay={}", file.property, path);
                            println!("  reproduced: the run kills the process with {} [{}]", signal_name(st.signal().unwrap_or(0)), file.violation.key);
                        }
                        exit(1);
                    }
                    Ok(_) => {
                        if !quiet {
                            println!("not reproduced: the run completes without killing the process");
                        }
                        exit(0);
                    }
                    Err(e) => {
                        eprintln!("harness error: {}", e);
                        exit(2);
                    }
                }
            }
            match part.replay_file(&file, !quiet) {
                Ok(true) => {
                    if !quiet {
                        println!("VIOLATION property={} replay={}", file.property, path);
                        println!("  reproduced: {} [{}]", file.violation.oracle, file.violation.key);
                    }
                    exit(1);
                }
                Ok(false) => {
                    if !quiet {
                        println!("not reproduced: the recorded violation [{}] did not occur", file.violation.key);
                    }
                    std::process::exit(0);
                }
                Err(e) => {
                    eprintln!("harness error: {}", e);
                    std::process::exit(2);
                }
            }
        }
        other => {
            eprintln!("unknown command {}", other);
            std::process::exit(2);
        }
    }
}
