#!/bin/sh
# tools/confirm_mut.sh <Cxx> <n> [extra cargo test args for the demo, e.g. "--features verif"]
# Confirms, in the scratch worktree /tmp/mut/<Cxx>, that seeded change <n> (a) leaves the existing suite at its baseline,
# (b) makes its demonstration fail, which (c) passes without it. Writes /tmp/mut/<Cxx>/_out/confirm<n>.json
P="$1"; N="$2"; EXTRA="$3"
W=/tmp/mut/$P; O=$W/_out
cd "$W" || exit 2
export CARGO_TARGET_DIR=$W/target CARGO_NET_OFFLINE=true
git checkout -q -- src; rm -f tests/demo_mut*.rs
cp "$O/demo$N.rs" tests/demo_mut$N.rs
cargo test --offline -j 8 $EXTRA --test demo_mut$N > "$O/confirm$N.demo_without.log" 2>&1; DEMO_WITHOUT=$?
git apply "$O/patch$N.diff" || { echo "patch does not apply"; exit 2; }
cargo test --offline -j 8 $EXTRA --test demo_mut$N > "$O/confirm$N.demo_with.log" 2>&1; DEMO_WITH=$?
rm -f tests/demo_mut$N.rs
cargo test --offline -j 8 --no-fail-fast > "$O/confirm$N.suite_with.log" 2>&1
FAILED=$(grep -E "^test .* \.\.\. FAILED|^    [a-z_:]+ *$" "$O/confirm$N.suite_with.log" | grep -E "FAILED" | sed 's/ \.\.\. FAILED//; s/^test //' | sort -u | tr '\n' ';')
# timing-flaky tests (also on the unmodified tree): re-run alone
for t in multi::tests::undegradable_latencies multi::tests::async_elements; do
  case "$FAILED" in *"$t"*)
    if cargo test --offline -j 8 --lib "$t" > "$O/confirm$N.rerun.log" 2>&1; then FAILED=$(echo "$FAILED" | sed "s/$t;//"); fi ;;
  esac
done
git checkout -q -- src
printf '{"property":"%s","n":%s,"demo_without_patch_exit":%s,"demo_with_patch_exit":%s,"suite_failures_with_patch":"%s"}\n' "$P" "$N" "$DEMO_WITHOUT" "$DEMO_WITH" "$FAILED" > "$O/confirm$N.json"
cat "$O/confirm$N.json"
