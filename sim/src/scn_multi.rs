//! Scenario family `multi_conc`: producers (all entry points) fanning out to concurrently driven listeners of one
//! Multi channel. Decides C03 (static listener set), the Multi half of C04 (no flush), C17 (listener churn during
//! sends) and C09 (log channel: late subscriptions, old/new split).

use crate::chan::{self, ChanDyn, Kind, Subscribe};
use crate::ctx::{self, harness_point, harness_yield, SchedSpec};
use crate::engine_t::Body;
use crate::framework::{Scenario, Tier};
use crate::harness::{self, HLock};
use crate::payload::Tracked;
use crate::rng::Rng;
use crate::scn_uni::{self, driver_thread, event_id, producer_thread, ChanArc, DriverCfg, Entry, Ev, EvKind, Shared};
use serde::{Deserialize, Serialize};
use std::collections::BTreeMap;
use std::sync::Arc;

#[derive(Clone, Copy, Debug, PartialEq, Eq, Serialize, Deserialize)]
pub enum ChurnOp {
    /// create a listener for new events and drive it
    Add,
    /// drop the listener this churn thread added most recently (with whatever it has not consumed)
    DropOwn,
    /// log channel: subscribe for old+new (joined) / old+new (split pair) and drive the stream(s)
    AddOldAndNew,
    AddSplit,
    /// drop the first of the listeners created before the sends (the lowest stream id: every other entry of the live
    /// list moves when it goes)
    DropFirst,
    /// drop the last of the listeners created before the sends (the highest stream id: nothing else moves)
    DropLast,
    /// wait until `running_streams_count()` says there is room for one more stream, then create a listener for new events
    /// (what a user does who replaces a listener: with every stream id in use, the new listener gets a recycled id)
    AddWhenRoom,
}

#[derive(Clone, Debug, Serialize, Deserialize)]
pub struct MultiParams {
    pub sched: SchedSpec,
    pub kind: Kind,
    pub buffer: usize,
    pub max_streams: usize,
    /// listeners created before any send and alive to the end
    pub listeners: usize,
    pub producers: Vec<Vec<Entry>>,
    pub hold: u32,
    pub spurious_poll: u32,
    pub waker_churn: bool,
    /// operations of the churn thread (empty: static listener set)
    pub churn: Vec<ChurnOp>,
    /// events sent (sequentially) before anything else starts -- history for late subscribers of the log channel
    pub presend: u32,
    /// operations of a second churn thread (listeners created and dropped concurrently with the first one's)
    #[serde(default)]
    pub churn2: Vec<ChurnOp>,
    /// listeners created and dropped again (never polled) before the run's own listeners are created: the stream ids are
    /// handed out first-vacated-last, so afterwards a listener's stream id differs from its position in the list of listeners
    #[serde(default)]
    pub predrop: usize,
}

#[derive(Clone, Debug)]
pub struct ListenerRec {
    pub thread_no: usize,
    pub driver: usize,
    pub throughout: bool,
    pub how: Subscribe,
    /// for a split pair: true = the 'old' half
    pub old_half: bool,
    pub created: (u64, u64),
    pub removed: Option<(u64, u64)>,
}

pub struct MultiRunData {
    pub events: Vec<Ev>,
    pub listeners: Vec<ListenerRec>,
    /// per listener index: accepted events it had not yielded at quiescence (before any harness flush)
    pub stuck: Vec<(usize, Vec<u32>)>,
    pub pending_at_quiescence: u32,
    pub blocked_producer: bool,
    /// (sends accepted with one fresh listener, a further one accepted?, sends accepted after every stream id was taken again)
    pub capacity_after: Option<(u32, bool, Option<u32>)>,
    /// ownership mode only (C05)
    pub own: Option<scn_uni::OwnData>,
}

fn log_name() -> String {
    chan::scratch_log_name("log")
}

struct LogFileGuard(Option<String>);
impl Drop for LogFileGuard {
    fn drop(&mut self) {
        if let Some(n) = &self.0 {
            let _ = std::fs::remove_file(chan::mmap_log_path(n));
        }
    }
}

pub fn presend_id(i: u32) -> u32 {
    0x7E00 | (i + 1)
}

pub fn multi_body(p: &MultiParams, flush_and_end: bool, check_capacity: bool) -> MultiRunData {
    harness::reset();
    let name = log_name();
    let _guard = LogFileGuard(if p.kind == Kind::MultiMmapLog { Some(name.clone()) } else { None });
    let ch: ChanArc = Arc::new(chan::make::<Tracked>(p.kind, p.buffer, p.max_streams, &name));
    let shared = Arc::new(HLock::new(Shared { events: vec![], drops: vec![], producers_active: p.producers.len() }));
    let listeners: Arc<HLock<Vec<ListenerRec>>> = Arc::new(HLock::new(vec![]));
    for i in 0..p.presend {
        let id = presend_id(i);
        let inv = ctx::stamp();
        let accepted = ch.send(id).accepted();
        let ret = ctx::stamp();
        shared.lock().unwrap().events.push(Ev { thread: 0, kind: EvKind::SendOp(Entry::Send), id, inv, ret, accepted, ended: false, intact: true, setter_invoked_on_reject: false, addr: 0, wakes_delivered: 0, wake_misses: 0 });
    }
    if p.predrop > 0 {
        let early: Vec<_> = (0..p.predrop).map(|_| ch.create_stream()).collect();
        drop(early);
        ctx::fault_fired("stream_ids_shifted_by_earlier_listeners");
    }
    let mut handles = vec![];
    let first_listener: Arc<HLock<Option<shuttle::thread::JoinHandle<()>>>> = Arc::new(HLock::new(None));
    let n_prod = p.producers.len();
    // the one initial listener a churn thread drops (if any): the first or the last
    let all_churn: Vec<ChurnOp> = p.churn.iter().chain(p.churn2.iter()).copied().collect();
    let special: Option<usize> = if all_churn.contains(&ChurnOp::DropFirst) {
        Some(0)
    } else if all_churn.contains(&ChurnOp::DropLast) && p.listeners > 0 {
        Some(p.listeners - 1)
    } else {
        None
    };
    let special_no = special.map(|l| 100 + l).unwrap_or(usize::MAX);
    for l in 0..p.listeners {
        let inv = ctx::stamp();
        let stream = ch.create_stream();
        let ret = ctx::stamp();
        let d = harness::new_driver();
        let thread_no = 100 + l;
        listeners.lock().unwrap().push(ListenerRec { thread_no, driver: d, throughout: special != Some(l), how: Subscribe::New, old_half: false, created: (inv, ret), removed: None });
        let shared2 = Arc::clone(&shared);
        let cfg = DriverCfg { hold: p.hold, spurious_poll: p.spurious_poll, waker_churn: p.waker_churn };
        let h = shuttle::thread::spawn(move || driver_thread(stream, shared2, d, thread_no, cfg));
        if special == Some(l) {
            *first_listener.lock().unwrap() = Some(h);
        } else {
            handles.push(h);
        }
    }
    // the churn thread(s)
    let spawn_churn = |ops: Vec<ChurnOp>, first_no: usize| {
        let (ch2, shared2, listeners2, hold) = (Arc::clone(&ch), Arc::clone(&shared), Arc::clone(&listeners), p.hold);
        let first_listener2 = Arc::clone(&first_listener);
        let max_streams = p.max_streams as u32;
        shuttle::thread::spawn(move || {
            let mut own: Vec<(usize, shuttle::thread::JoinHandle<()>)> = vec![];
            let mut next_no = first_no;
            for op in ops {
                harness_point();
                match op {
                    ChurnOp::Add | ChurnOp::AddOldAndNew | ChurnOp::AddSplit | ChurnOp::AddWhenRoom => {
                        if op == ChurnOp::AddWhenRoom {
                            let mut spins = 0u64;
                            while ch2.running_streams() >= max_streams {
                                harness_yield();
                                spins += 1;
                                if ctx::aborted() {
                                    return own;
                                }
                                if spins > 50_000 {
                                    panic!("harness: AddWhenRoom never saw room");
                                }
                            }
                        }
                        let how = match op {
                            ChurnOp::Add | ChurnOp::AddWhenRoom => Subscribe::New,
                            ChurnOp::AddOldAndNew => Subscribe::OldAndNewJoined,
                            _ => Subscribe::OldAndNewSplit,
                        };
                        ctx::op_mark("create_stream");
                        let inv = ctx::stamp();
                        let streams = if op == ChurnOp::AddWhenRoom {
                            // `running_streams_count()` goes down a few instructions before the dropped stream's id is handed
                            // back: a creation that lands in between panics with "exhausted". The property is stated over
                            // histories in which a drop has returned before the next creation starts, so such a run is not
                            // judged: it is counted and abandoned
                            match std::panic::catch_unwind(std::panic::AssertUnwindSafe(|| ch2.subscribe(how))) {
                                Ok(s) => s,
                                Err(_) => {
                                    ctx::with_ctx(|c| *c.probes.entry("harness.recycle.creation_raced_with_a_drop_in_progress.run_not_judged").or_insert(0) += 1);
                                    ctx::abort_run("inconclusive: a stream was created while the drop that makes room for it was still in progress".into());
                                }
                            }
                        } else {
                            ch2.subscribe(how)
                        };
                        let ret = ctx::stamp();
                        ctx::op_mark("");
                        ctx::fault_fired("listener_churn");
                        let n_streams = streams.len();
                        for (k, stream) in streams.into_iter().enumerate() {
                            let d = harness::new_driver();
                            let thread_no = next_no;
                            next_no += 1;
                            ctx::trace(|| format!("churn: added listener t{} ({:?}, stream id {})", thread_no, how, stream.stream_id()));
                            listeners2.lock().unwrap().push(ListenerRec { thread_no, driver: d, throughout: false, how, old_half: n_streams == 2 && k == 0, created: (inv, ret), removed: None });
                            let shared3 = Arc::clone(&shared2);
                            let cfg = DriverCfg { hold, spurious_poll: 0, waker_churn: false };
                            own.push((thread_no, shuttle::thread::spawn(move || driver_thread(stream, shared3, d, thread_no, cfg))));
                        }
                    }
                    ChurnOp::DropFirst | ChurnOp::DropLast => {
                        let h = first_listener2.lock().unwrap().take();
                        if let Some(h) = h {
                            let d = listeners2.lock().unwrap().iter().find(|l| l.thread_no == special_no).map(|l| l.driver).unwrap();
                            let inv = ctx::stamp();
                            harness::stop_driver(d);
                            let _ = h.join();
                            let ret = ctx::stamp();
                            ctx::fault_fired("listener_churn");
                            ctx::trace(|| format!("churn: dropped initial listener t{}", special_no));
                            if let Some(l) = listeners2.lock().unwrap().iter_mut().find(|l| l.thread_no == special_no) {
                                l.removed = Some((inv, ret));
                            }
                        }
                    }
                    ChurnOp::DropOwn => {
                        if let Some((thread_no, h)) = own.pop() {
                            let d = listeners2.lock().unwrap().iter().find(|l| l.thread_no == thread_no).map(|l| l.driver).unwrap();
                            let inv = ctx::stamp();
                            harness::stop_driver(d);
                            let _ = h.join();
                            let ret = ctx::stamp();
                            ctx::fault_fired("listener_churn");
                            ctx::trace(|| format!("churn: dropped listener t{}", thread_no));
                            if let Some(l) = listeners2.lock().unwrap().iter_mut().find(|l| l.thread_no == thread_no) {
                                l.removed = Some((inv, ret));
                            }
                        }
                    }
                }
                if ctx::aborted() {
                    break;
                }
            }
            own
        })
    };
    let churn_handle = if p.churn.is_empty() { None } else { Some(spawn_churn(p.churn.clone(), 200)) };
    let churn2_handle = if p.churn2.is_empty() { None } else { Some(spawn_churn(p.churn2.clone(), 300)) };
    // ownership mode (C05): a releaser thread drops the handles the listeners hand over
    let own = crate::scn_held::own_cfg().is_some();
    let releaser = if own { Some(shuttle::thread::spawn(crate::scn_held::releaser_thread)) } else { None };
    if own {
        ctx::with_ctx(|c| {
            for i in 0..p.presend {
                c.ledger.sent_done.insert(presend_id(i));
            }
        });
    }
    let mut prod_handles = vec![];
    for (t, ops) in p.producers.iter().enumerate() {
        let (ch2, shared2, ops2) = (Arc::clone(&ch), Arc::clone(&shared), ops.clone());
        prod_handles.push(shuttle::thread::spawn(move || producer_thread(ch2, shared2, t, ops2)));
    }
    let _ = n_prod;
    let live_drivers = |listeners: &Arc<HLock<Vec<ListenerRec>>>| -> Vec<usize> { listeners.lock().unwrap().iter().map(|l| l.driver).collect() };
    // wait for the producers (see scn_uni::uni_body for the blocked-producer detection)
    let mut blocked_producer = false;
    let mut idle_rounds = 0u64;
    let (mut steps0, mut events0) = (0u64, 0usize);
    while shared.lock().unwrap().producers_active > 0 && !ctx::aborted() {
        if harness::all_quiescent(&live_drivers(&listeners)) {
            let (steps_now, events_now) = (ctx::with_ctx(|c| c.steps).unwrap_or(0), shared.lock().unwrap().events.len());
            if idle_rounds == 0 || events_now != events0 {
                idle_rounds = 0;
                steps0 = steps_now;
                events0 = events_now;
            }
            idle_rounds += 1;
            if steps_now - steps0 > idle_rounds + 1500 {
                blocked_producer = true;
                break;
            }
            if idle_rounds > 30_000 {
                panic!("harness: producers neither finish nor run");
            }
        } else {
            idle_rounds = 0;
        }
        harness_yield();
    }
    let mut churn_own = vec![];
    if !blocked_producer {
        for h in prod_handles.drain(..) {
            let _ = h.join();
        }
        for h in [churn_handle, churn2_handle].into_iter().flatten() {
            if let Ok(mut own) = h.join() {
                churn_own.append(&mut own);
            }
        }
    }
    harness::wait_quiescent(&live_drivers(&listeners));
    // ---- verdict data at quiescence (no scheduling point between the quiescence check and this)
    let stuck: Vec<(usize, Vec<u32>)> = {
        let sh = shared.lock().unwrap();
        let ls = listeners.lock().unwrap();
        let accepted: Vec<(u32, u64, u64)> = sh.events.iter().filter(|e| matches!(e.kind, EvKind::SendOp(_)) && e.accepted).map(|e| (e.id, e.inv, e.ret)).collect();
        ls.iter()
            .enumerate()
            .filter(|(_, l)| l.removed.is_none())
            .map(|(li, l)| {
                let yielded: Vec<u32> = sh.events.iter().filter(|e| e.thread == l.thread_no && e.kind == EvKind::Poll && e.accepted).map(|e| e.id).collect();
                // entitled for sure: sends that started after the listener's creation returned (or anything, for old+new)
                let missing: Vec<u32> = accepted
                    .iter()
                    .filter(|(id, inv, _)| {
                        let entitled = match l.how {
                            Subscribe::New => *inv > l.created.1,
                            Subscribe::OldAndNewJoined => true,
                            Subscribe::OldAndNewSplit => !l.old_half && *inv > l.created.1,
                        };
                        entitled && !yielded.contains(id)
                    })
                    .map(|(id, _, _)| *id)
                    .collect();
                (li, missing)
            })
            .filter(|(_, m)| !m.is_empty())
            .collect()
    };
    let pending = ch.pending();
    if blocked_producer {
        let mut rounds = 0;
        while shared.lock().unwrap().producers_active > 0 && !ctx::aborted() && rounds < 10_000 {
            for d in live_drivers(&listeners) {
                harness::kick(d);
            }
            harness_yield();
            rounds += 1;
        }
        for h in prod_handles.drain(..) {
            let _ = h.join();
        }
        harness::wait_quiescent(&live_drivers(&listeners));
    }
    if flush_and_end && !ctx::aborted() {
        loop {
            let before = shared.lock().unwrap().events.iter().filter(|e| e.kind == EvKind::Poll && e.accepted).count();
            for d in live_drivers(&listeners) {
                harness::kick(d);
            }
            harness::wait_quiescent(&live_drivers(&listeners));
            let after = shared.lock().unwrap().events.iter().filter(|e| e.kind == EvKind::Poll && e.accepted).count();
            if after == before || ctx::aborted() {
                break;
            }
        }
    }
    let mut own_data = None;
    if own && !ctx::aborted() {
        let mut od = scn_uni::OwnData::default();
        let mut spins = 0u64;
        while !crate::scn_held::releaser_idle() && !ctx::aborted() {
            harness_yield();
            spins += 1;
            if spins > 100_000 {
                panic!("harness: the releaser thread never became idle");
            }
        }
        // channel alive, every listener parked holding nothing: whatever every listener has yielded (static listener
        // set), and whatever was rejected, is destroyed
        let n_listeners = listeners.lock().unwrap().len();
        let judged: Vec<u32> = {
            let sh = shared.lock().unwrap();
            sh.events
                .iter()
                .filter(|e| matches!(e.kind, EvKind::SendOp(_)))
                .filter(|s| !s.accepted || sh.events.iter().filter(|e| e.kind == EvKind::Poll && e.accepted && e.id == s.id).count() >= n_listeners)
                .map(|e| e.id)
                .collect()
        };
        od.undestroyed_after_release = crate::scn_held::not_destroyed_once(&judged);
        own_data = Some(od);
    }
    if !ctx::aborted() {
        ch.cancel_all();
    }
    for d in live_drivers(&listeners) {
        harness::stop_driver(d);
    }
    for h in handles {
        let _ = h.join();
    }
    if let Some(h) = first_listener.lock().unwrap().take() {
        let _ = h.join();
    }
    for (_, h) in churn_own {
        let _ = h.join();
    }
    if let Some(h) = releaser {
        crate::scn_held::stop_releaser();
        if !ctx::aborted() {
            let _ = h.join();
        }
    }
    // ---- capacity after everything was consumed and every handle released (pool-based kinds)
    let mut capacity_after = None;
    if check_capacity && p.kind.is_ogre_multi() && !ctx::aborted() {
        let waker = futures::task::noop_waker();
        let mut cx = std::task::Context::from_waker(&waker);
        let mut measure = |streams: &mut Vec<Box<dyn chan::StreamDyn>>, tag: u32| -> (u32, bool) {
            for s in streams.iter_mut() {
                while let std::task::Poll::Ready(Some(h)) = s.poll(&mut cx) {
                    drop(h);
                }
            }
            let mut accepted = 0u32;
            for i in 0..p.buffer as u32 {
                if ch.send(tag | (i + 1)).accepted() {
                    accepted += 1;
                }
            }
            let one_more = ch.send(tag | 0xFF).accepted();
            for s in streams.iter_mut() {
                while let std::task::Poll::Ready(Some(h)) = s.poll(&mut cx) {
                    drop(h);
                }
            }
            (accepted, one_more)
        };
        // stage A: one fresh listener
        let mut streams = vec![ch.create_stream()];
        let (a_accepted, a_more) = measure(&mut streams, 0x7D00);
        let mut after_reuse = None;
        if a_accepted as usize != p.buffer {
            // stage B: take every stream id there is (whatever a vacated listener's queue still holds is released when its
            // id is handed out again), then measure once more
            while streams.len() < p.max_streams {
                streams.push(ch.create_stream());
            }
            after_reuse = Some(measure(&mut streams, 0x7C00).0);
        }
        drop(streams);
        capacity_after = Some((a_accepted, a_more, after_reuse));
    }
    let events = std::mem::take(&mut shared.lock().unwrap().events);
    let listeners = listeners.lock().unwrap().clone();
    MultiRunData { events, listeners, stuck, pending_at_quiescence: pending, blocked_producer, capacity_after, own: own_data }
}

/// per listener: the ids it yielded, in order, with the payload address observed
fn yields_of(data: &MultiRunData, thread_no: usize) -> Vec<(u32, usize, bool)> {
    data.events.iter().filter(|e| e.thread == thread_no && e.kind == EvKind::Poll && e.accepted).map(|e| (e.id, e.addr, e.intact)).collect()
}

fn accepted_by_producer(data: &MultiRunData) -> BTreeMap<u32, Vec<u32>> {
    // producer key = id >> 8 ; order = order of the ops of that producer (ids are increasing per producer)
    let mut m: BTreeMap<u32, Vec<(u64, u32)>> = BTreeMap::new();
    for e in data.events.iter() {
        if let EvKind::SendOp(_) = e.kind {
            if e.accepted {
                m.entry(e.id >> 8).or_default().push((e.inv, e.id));
            }
        }
    }
    m.into_iter()
        .map(|(k, mut v)| {
            v.sort_unstable();
            (k, v.into_iter().map(|(_, id)| id).collect())
        })
        .collect()
}

/// C03 / C17 oracle for one listener. `mode`: 0 = must have everything; 1 = gapless suffix per producer (added during
/// sends); 2 = gapless prefix per producer (removed during sends); 3 = added and removed: a gapless run
fn check_listener(property: &str, family: &str, p: &MultiParams, data: &MultiRunData, l: &ListenerRec, mode: u8) {
    let kind = p.kind.name();
    let role = match mode {
        0 => "throughout",
        1 => "added",
        2 => "removed",
        _ => "added_and_removed",
    };
    let key = |oracle: &str| format!("{}/{}/{}/{}", family, kind, role, oracle);
    let yields = yields_of(data, l.thread_no);
    let by_prod = accepted_by_producer(data);
    let all_accepted: Vec<u32> = by_prod.values().flatten().copied().collect();
    let rejected: Vec<u32> = data.events.iter().filter(|e| matches!(e.kind, EvKind::SendOp(_)) && !e.accepted).map(|e| e.id).collect();
    let mut seen: BTreeMap<u32, u32> = BTreeMap::new();
    for (id, _, intact) in yields.iter() {
        *seen.entry(*id).or_insert(0) += 1;
        if !intact {
            ctx::report(property, "payload_corrupted", key("payload_corrupted"), format!("listener t{} yielded {:#x} with a payload that is not what was sent", l.thread_no, id));
        }
        if !all_accepted.contains(id) {
            let why = if rejected.contains(id) { "rejected_delivered" } else { "invented" };
            ctx::report(property, why, key(why), format!("listener t{} yielded {:#x}, which was {}", l.thread_no, id, if rejected.contains(id) { "rejected" } else { "never sent" }));
        }
    }
    if let Some((id, n)) = seen.iter().find(|(_, n)| **n > 1) {
        ctx::report(property, "duplicate", key("duplicate"), format!("listener t{} yielded {:#x} {} times", l.thread_no, id, n));
    }
    for (prod, seq) in by_prod.iter() {
        let mut got: Vec<u32> = yields.iter().map(|(id, _, _)| *id).filter(|id| id >> 8 == *prod).collect();
        if mode != 0 && property != "C10" {
            // events accepted before the listener existed (left over by an earlier holder of its stream id) are C10's
            // subject: they are set aside here, so that they cannot pose as a gap or a repeat of C17
            let before: Vec<u32> = data.events.iter().filter(|e| matches!(e.kind, EvKind::SendOp(_)) && e.accepted && e.ret < l.created.0).map(|e| e.id).collect();
            got.retain(|id| !before.contains(id));
        }
        // order
        let positions: Vec<usize> = got.iter().filter_map(|id| seq.iter().position(|s| s == id)).collect();
        if positions.windows(2).any(|w| w[0] >= w[1]) {
            ctx::report(property, "out_of_order", key("out_of_order"), format!("listener t{} saw producer {:#x}'s events in the order {:x?}, sent as {:x?}", l.thread_no, prod, got, seq));
            continue;
        }
        // completeness
        let missing: Vec<u32> = seq.iter().copied().filter(|id| !got.contains(id)).collect();
        match mode {
            0 => {
                if !missing.is_empty() {
                    ctx::report(property, "missed", key("missed"), format!("listener t{} (alive throughout) never yielded accepted events {:x?} of producer {:#x} (it yielded {:x?})", l.thread_no, missing, prod, got));
                }
            }
            _ => {
                // gapless: the positions form a contiguous run
                if !positions.is_empty() && positions.last().unwrap() - positions[0] + 1 != positions.len() {
                    ctx::report(property, "gap", key("gap"), format!("listener t{} yielded {:x?} of producer {:#x}'s {:x?}: not a gapless run", l.thread_no, got, prod, seq));
                }
                let sends: Vec<&Ev> = data.events.iter().filter(|e| matches!(e.kind, EvKind::SendOp(_)) && e.accepted && e.id >> 8 == *prod).collect();
                for e in sends {
                    // definitely inside the listener's life: the send started after creation returned and returned before removal started
                    let after_creation = e.inv > l.created.1;
                    let before_removal = l.removed.map(|r| e.ret < r.0).unwrap_or(true);
                    if after_creation && before_removal && !got.contains(&e.id) && (mode == 1) {
                        ctx::report(property, "missed", key("missed"), format!("listener t{} (added during the sends, alive to the end) never yielded {:#x}, whose send started after the listener's creation had returned", l.thread_no, e.id));
                    }
                    let before_creation = e.ret < l.created.0;
                    if before_creation && got.contains(&e.id) && l.how == Subscribe::New && property == "C10" {
                        ctx::report(property, "saw_the_past", key("saw_the_past"), format!("listener t{} yielded {:#x}, which had been accepted before the listener was created", l.thread_no, e.id));
                    }
                }
            }
        }
    }
}

fn check_same_allocation(property: &str, family: &str, p: &MultiParams, data: &MultiRunData) {
    let mut addr_of: BTreeMap<u32, usize> = BTreeMap::new();
    for e in data.events.iter().filter(|e| e.kind == EvKind::Poll && e.accepted && e.addr != 0) {
        match addr_of.get(&e.id) {
            None => {
                addr_of.insert(e.id, e.addr);
            }
            Some(a) if *a != e.addr => {
                ctx::report(property, "different_allocation", format!("{}/{}/different_allocation", family, p.kind.name()), format!("event {:#x} was observed at address {:#x} by one listener and {:#x} by another: not the same shared allocation", e.id, a, e.addr));
                return;
            }
            _ => {}
        }
    }
}

pub fn draw_multi_entry(rng: &mut Rng, kind: Kind) -> Entry {
    loop {
        let e = match rng.below(8) {
            0 | 1 => Entry::Send,
            2 | 3 => Entry::SendWith,
            4 => Entry::SendAsync { suspend: rng.below(4) as u32 },
            5 => Entry::SendDerived,
            _ => Entry::Reserve,
        };
        match e {
            Entry::Reserve if !kind.is_ogre_multi() => continue,
            Entry::SendDerived if !kind.is_arc_multi() => continue,
            Entry::SendAsync { .. } if !kind.supports_async_send() => continue,
            _ => return e,
        }
    }
}

pub fn draw_multi_params(rng: &mut Rng, tier: Tier, kinds: &[Kind], stream_grid: &[usize], max_listeners: usize) -> MultiParams {
    let kind = *rng.pick(kinds);
    let buffer = *rng.pick(&chan::BUFFERS);
    let max_streams = *rng.pick(stream_grid);
    let listeners = 1 + rng.below(max_streams.min(max_listeners) as u64) as usize;
    // "all event sequences shorter than the buffer" (the log channel has no practical bound)
    let budget = if kind == Kind::MultiMmapLog { if tier == Tier::Thorough { 10 } else { 8 } } else { buffer - 1 };
    let n_prod = 1 + rng.below(2) as usize;
    let mut producers: Vec<Vec<Entry>> = (0..n_prod).map(|_| vec![]).collect();
    let total = if budget == 0 { 0 } else { 1 + rng.below(budget as u64) as usize };
    for i in 0..total {
        let t = if n_prod == 1 { 0 } else { rng.below(n_prod as u64) as usize };
        let _ = i;
        producers[t].push(draw_multi_entry(rng, kind));
    }
    producers.retain(|o| !o.is_empty());
    if producers.is_empty() {
        producers.push(vec![draw_multi_entry(rng, kind)]);
    }
    let mut sched = SchedSpec::draw(rng);
    if kind != Kind::MultiMmapLog && rng.chance(1, 5) {
        sched.origin = u32::MAX - rng.below(3 * buffer as u64 + 2) as u32;
    }
    let predrop = if kind != Kind::MultiMmapLog && max_streams > 1 && rng.chance(1, 3) { 1 + rng.below(max_streams as u64 - 1) as usize } else { 0 };
    MultiParams { sched, kind, buffer, max_streams, listeners, producers, hold: rng.below(3) as u32, spurious_poll: *rng.pick(&[0, 0, 64, 256]), waker_churn: rng.chance(1, 4), churn: vec![], presend: 0, churn2: vec![], predrop }
}

pub fn shrink_multi(p: &MultiParams) -> Vec<MultiParams> {
    let mut out = vec![];
    if p.predrop > 0 {
        let mut q = p.clone();
        q.predrop -= 1;
        out.push(q);
    }
    if p.producers.len() > 1 {
        for i in 0..p.producers.len() {
            let mut q = p.clone();
            q.producers.remove(i);
            out.push(q);
        }
    }
    for i in 0..p.producers.len() {
        if p.producers[i].len() > 1 {
            for j in (0..p.producers[i].len()).rev() {
                let mut q = p.clone();
                q.producers[i].remove(j);
                out.push(q);
            }
        }
        for j in 0..p.producers[i].len() {
            if let Entry::SendAsync { suspend } = p.producers[i][j] {
                if suspend > 0 {
                    let mut q = p.clone();
                    q.producers[i][j] = Entry::SendAsync { suspend: 0 };
                    out.push(q);
                }
            }
        }
    }
    for i in (0..p.churn.len()).rev() {
        let mut q = p.clone();
        q.churn.remove(i);
        out.push(q);
    }
    for i in (0..p.churn2.len()).rev() {
        let mut q = p.clone();
        q.churn2.remove(i);
        out.push(q);
    }
    if p.listeners > 1 {
        let mut q = p.clone();
        q.listeners -= 1;
        out.push(q);
    }
    if p.presend > 0 {
        let mut q = p.clone();
        q.presend -= 1;
        out.push(q);
    }
    if p.hold > 0 {
        let mut q = p.clone();
        q.hold = 0;
        out.push(q);
    }
    if p.spurious_poll > 0 {
        let mut q = p.clone();
        q.spurious_poll = 0;
        out.push(q);
    }
    if p.waker_churn {
        let mut q = p.clone();
        q.waker_churn = false;
        out.push(q);
    }
    if p.sched.weak_cas > 0 || p.sched.stall > 0 {
        let mut q = p.clone();
        q.sched.weak_cas = 0;
        q.sched.stall = 0;
        out.push(q);
    }
    if p.sched.origin != 0 {
        let mut q = p.clone();
        q.sched.origin = 0;
        out.push(q);
    }
    out
}

pub fn size_multi(p: &MultiParams) -> u64 {
    p.producers.iter().map(|o| o.len() as u64).sum::<u64>() * 4 + p.listeners as u64 * 2 + (p.churn.len() + p.churn2.len()) as u64 * 3 + p.presend as u64 + p.buffer as u64
}

const MULTI_ASSUMPTIONS: [&str; 3] = [
    "sequential consistency at the instrumented atomics; plain shared accesses (wakers[], used_streams[], keep_streams_running[]) interleave at the instrumented yield points, whole accesses only",
    "fewer events than BUFFER_SIZE are outstanding (the Arc kinds wait and the OgreArc kinds panic by design when a listener's buffer is full)",
    "the log channel maps a real sparse file under /tmp (created and removed per run); no kernel fault is injected",
];

macro_rules! multi_scenario_common {
    () => {
        type P = MultiParams;
        fn engine(&self) -> &'static str {
            "T"
        }
        fn sched<'a>(&self, p: &'a MultiParams) -> &'a SchedSpec {
            &p.sched
        }
        fn with_sched(&self, p: &MultiParams, s: SchedSpec) -> MultiParams {
            let mut q = p.clone();
            q.sched = s;
            q
        }
        fn shrink(&self, p: &MultiParams) -> Vec<MultiParams> {
            shrink_multi(p)
        }
        fn size(&self, p: &MultiParams) -> u64 {
            size_multi(p)
        }
        fn assumptions(&self) -> Vec<String> {
            MULTI_ASSUMPTIONS.iter().map(|s| s.to_string()).collect()
        }
    };
}

// ---------------------------------------------------------------------------------------------------- C03
pub struct C03;
impl Scenario for C03 {
    multi_scenario_common!();
    fn property(&self) -> &'static str {
        "C03"
    }
    fn name(&self) -> &'static str {
        "multi_conc"
    }
    fn generate(&self, rng: &mut Rng, tier: Tier) -> MultiParams {
        draw_multi_params(rng, tier, &chan::MULTI_KINDS, &chan::STREAMS, 3)
    }
    fn body(&self, p: &MultiParams) -> Option<Body> {
        let p2 = p.clone();
        Some(Arc::new(move || {
            let data = multi_body(&p2, true, false);
            if ctx::aborted() {
                return;
            }
            for l in data.listeners.iter() {
                check_listener("C03", "multi_conc", &p2, &data, l, 0);
            }
            check_same_allocation("C03", "multi_conc", &p2, &data);
        }))
    }
}

// ---------------------------------------------------------------------------------------------------- C04 (Multi half)
pub struct C04Multi;
impl Scenario for C04Multi {
    multi_scenario_common!();
    fn property(&self) -> &'static str {
        "C04"
    }
    fn name(&self) -> &'static str {
        "multi_noflush"
    }
    fn generate(&self, rng: &mut Rng, tier: Tier) -> MultiParams {
        let mut p = draw_multi_params(rng, tier, &chan::MULTI_KINDS, &[1, 2], 2);
        // one entry point per producer, so that a stuck event is attributable
        for ops in p.producers.iter_mut() {
            let e = ops[0];
            for o in ops.iter_mut() {
                *o = e;
            }
        }
        if rng.chance(1, 3) {
            p.producers.truncate(1);
            p.producers[0].truncate(1);
        }
        // the log channel: a listener may also be *added* while events are being sent (it subscribes at the log's current
        // end: whatever lands in its range it must be woken for)
        if p.kind == Kind::MultiMmapLog && p.listeners < p.max_streams && rng.chance(1, 2) {
            p.churn = vec![ChurnOp::Add];
        }
        p
    }
    fn body(&self, p: &MultiParams) -> Option<Body> {
        let p2 = p.clone();
        Some(Arc::new(move || {
            let data = multi_body(&p2, false, false);
            if ctx::aborted() {
                return;
            }
            // the log channel says itself whether a listener still has something in its range: every producer has returned,
            // every driven listener is parked without a pending wake -- and pending_items_count() is not 0
            if p2.kind == Kind::MultiMmapLog && data.stuck.is_empty() && data.pending_at_quiescence > 0 {
                let total_sends = p2.producers.iter().map(|o| o.len()).sum::<usize>();
                let entry = p2.producers.first().and_then(|o| o.first()).map(|e| e.name()).unwrap_or("send");
                ctx::report(
                    "C04",
                    "pending_at_quiescence",
                    format!("multi_noflush/multi.mmap_log/{}/ms{}s{}/{}/{}/pending_at_quiescence", entry, p2.max_streams, p2.listeners, if p2.churn.is_empty() { "static" } else { "listener_added" }, if total_sends == 1 { "n1" } else if total_sends == 2 { "n2" } else { "n3+" }),
                    format!("all producers returned and every driven listener (also the one added meanwhile) is parked without a pending wake, yet pending_items_count() == {}: an accepted event lies in a listener's range and nobody was woken for it", data.pending_at_quiescence),
                );
            }
            if let Some((li, missing)) = data.stuck.first() {
                let last = *missing.last().unwrap();
                let entry = scn_uni::entry_of(&data.events, last);
                let total_sends = p2.producers.iter().map(|o| o.len()).sum::<usize>();
                let (wd, wm) = data.events.iter().find(|e| e.id == last && matches!(e.kind, EvKind::SendOp(_))).map(|e| (e.wakes_delivered, e.wake_misses)).unwrap_or((0, 0));
                ctx::report(
                    "C04",
                    "stuck_at_quiescence",
                    scn_uni::c04_key("multi_noflush", p2.kind, entry, p2.max_streams, p2.listeners, p2.producers.len(), total_sends, wd, wm),
                    format!("all producers returned and every driven listener is parked without a pending wake, yet listener #{} never yielded accepted events {:x?} (pending_items_count={}); the last one was accepted through {}", li, missing, data.pending_at_quiescence, entry),
                );
            }
        }))
    }
}

// ---------------------------------------------------------------------------------------------------- C17
/// The shape of the churn is part of every C17 key: removing a listener that is not the last entry of the live list moves
/// the entries behind it (under the senders' cursor), which is a different mechanism from churn at the tail of the list.
/// `lowest_id_removed`: the first listener goes; `inner_id_removed`: two churn threads, one of which removes its listener
/// while the other's (created later, so further back in the list) may exist; `tail_churn`: only the last entry ever changes.
pub fn churn_shape(p: &MultiParams) -> &'static str {
    if p.churn.contains(&ChurnOp::DropFirst) || p.churn2.contains(&ChurnOp::DropFirst) {
        "lowest_id_removed"
    } else if !p.churn2.is_empty() && (p.churn.contains(&ChurnOp::DropOwn) || p.churn2.contains(&ChurnOp::DropOwn)) {
        "inner_id_removed"
    } else {
        "tail_churn"
    }
}

pub struct C17;
impl Scenario for C17 {
    multi_scenario_common!();
    fn key_context(&self, p: &MultiParams) -> String {
        format!("{}/{}/", churn_shape(p), p.kind.name())
    }
    fn property(&self) -> &'static str {
        "C17"
    }
    fn name(&self) -> &'static str {
        "multi_churn"
    }
    fn generate(&self, rng: &mut Rng, tier: Tier) -> MultiParams {
        let mut p = draw_multi_params(rng, tier, &chan::MULTI_KINDS, &[4], 3);
        p.listeners = 2 + rng.below(2) as usize;
        // the churn shapes (which stream id goes, which one comes) are told from the creation order: no shifted ids here
        p.predrop = 0;
        p.churn = match rng.below(4) {
            0 => vec![ChurnOp::Add],
            1 => vec![ChurnOp::Add, ChurnOp::DropOwn],
            2 => vec![ChurnOp::Add, ChurnOp::DropOwn, ChurnOp::Add],
            _ => vec![ChurnOp::Add, ChurnOp::Add, ChurnOp::DropOwn],
        };
        if p.kind != Kind::MultiMmapLog && rng.chance(1, 3) {
            // the removed listener holds the lowest stream id: the live list is compacted under the senders' feet
            p.listeners = 3;
            p.churn = match rng.below(3) {
                0 => vec![ChurnOp::DropFirst],
                1 => vec![ChurnOp::DropFirst, ChurnOp::Add],
                _ => vec![ChurnOp::Add, ChurnOp::DropFirst],
            };
            return p;
        }
        if p.listeners == 3 {
            p.churn.retain(|_| true);
            // MAX_STREAMS is 4: never more than one churn listener alive at a time
            p.churn = match rng.below(2) {
                0 => vec![ChurnOp::Add],
                _ => vec![ChurnOp::Add, ChurnOp::DropOwn, ChurnOp::Add],
            };
        } else if rng.chance(1, 3) {
            // two churn threads: one listener is being dropped while another is being created (MAX_STREAMS is 4, two
            // listeners exist throughout: each churn thread has at most one listener alive at a time)
            p.churn = match rng.below(3) {
                0 => vec![ChurnOp::Add, ChurnOp::DropOwn],
                1 => vec![ChurnOp::Add, ChurnOp::DropOwn, ChurnOp::Add],
                _ => vec![ChurnOp::Add],
            };
            p.churn2 = match rng.below(3) {
                0 => vec![ChurnOp::Add, ChurnOp::DropOwn],
                1 => vec![ChurnOp::Add, ChurnOp::DropOwn, ChurnOp::Add],
                _ => vec![ChurnOp::Add],
            };
        }
        p
    }
    fn body(&self, p: &MultiParams) -> Option<Body> {
        let p2 = p.clone();
        Some(Arc::new(move || {
            let data = multi_body(&p2, true, true);
            if ctx::aborted() {
                return;
            }
            // the shape of the churn is part of every key: removing the listener with the lowest stream id moves every other
            // entry of the live list, which is a different mechanism from churn at the tail of the list
            let family: &'static str = match churn_shape(&p2) {
                "lowest_id_removed" => "multi_churn/lowest_id_removed",
                "inner_id_removed" => "multi_churn/inner_id_removed",
                _ => "multi_churn/tail_churn",
            };
            for l in data.listeners.iter() {
                let mode = match (l.throughout, l.removed.is_some()) {
                    (true, _) => 0,
                    (false, false) => 1,
                    (false, true) => 3,
                };
                check_listener("C17", family, &p2, &data, l, mode);
            }
            if let Some((accepted, one_more, after_reuse)) = data.capacity_after {
                if accepted as usize != p2.buffer || one_more {
                    let how = match after_reuse {
                        Some(n) if n as usize == p2.buffer => "storage_held_until_stream_id_reuse",
                        _ => "storage_leaked",
                    };
                    ctx::report("C17", how, format!("{}/{}/{}", family, p2.kind.name(), how), format!("after everything was consumed and every handle released, {} of {} sends were accepted (and a further one: {}); after every stream id had been handed out again: {:?}", accepted, p2.buffer, one_more, after_reuse));
                }
            }
        }))
    }
}

// ---------------------------------------------------------------------------------------------------- C10 (engine-T part 2)
/// A listener is replaced while events are being sent: with every stream id in use, the last listener is dropped (with
/// whatever it has not consumed) by one thread while another thread -- which watches `running_streams_count()` for
/// room, as a user replacing a listener would -- creates a new one, which gets the recycled stream id. The dropped
/// listener always holds the highest id, so the live list is never compacted (that mechanism is C17's known finding).
/// Oracle (C10): the new listener yields only events accepted while it existed (nothing its predecessor left behind),
/// each once, in order, and every event whose send started after its creation had returned.
pub struct C10Recycle;
impl Scenario for C10Recycle {
    multi_scenario_common!();
    fn key_context(&self, p: &MultiParams) -> String {
        format!("{}/", p.kind.name())
    }
    fn property(&self) -> &'static str {
        "C10"
    }
    fn name(&self) -> &'static str {
        "listener_recycle"
    }
    fn generate(&self, rng: &mut Rng, tier: Tier) -> MultiParams {
        let mut p = draw_multi_params(rng, tier, &chan::MULTI_KINDS_NO_LOG, &[1, 2, 2], 2);
        p.listeners = p.max_streams;
        p.predrop = 0;
        match rng.below(4) {
            0 => {
                p.churn = vec![ChurnOp::DropLast, ChurnOp::AddWhenRoom];
                p.churn2 = vec![];
            }
            1 => {
                p.churn = vec![ChurnOp::DropLast];
                p.churn2 = vec![ChurnOp::AddWhenRoom];
            }
            2 => {
                p.churn = vec![ChurnOp::DropLast];
                p.churn2 = vec![ChurnOp::AddWhenRoom, ChurnOp::DropOwn];
            }
            _ => {
                p.churn = vec![ChurnOp::DropLast];
                p.churn2 = vec![ChurnOp::AddWhenRoom, ChurnOp::DropOwn, ChurnOp::AddWhenRoom];
            }
        }
        // the listeners leave events unconsumed when they go: slow consumers
        p.hold = 0;
        p
    }
    fn body(&self, p: &MultiParams) -> Option<Body> {
        let p2 = p.clone();
        Some(Arc::new(move || {
            let data = multi_body(&p2, true, false);
            if ctx::aborted() {
                return;
            }
            for l in data.listeners.iter() {
                let mode = match (l.throughout, l.removed.is_some()) {
                    (true, _) => 0,
                    (false, false) => 1,
                    (false, true) => 3,
                };
                check_listener("C10", "listener_recycle", &p2, &data, l, mode);
            }
        }))
    }
}

// ---------------------------------------------------------------------------------------------------- C09
pub struct C09;
impl Scenario for C09 {
    multi_scenario_common!();
    fn property(&self) -> &'static str {
        "C09"
    }
    fn name(&self) -> &'static str {
        "mmap_log"
    }
    fn generate(&self, rng: &mut Rng, tier: Tier) -> MultiParams {
        let mut p = draw_multi_params(rng, tier, &[Kind::MultiMmapLog], &[4], 2);
        p.listeners = rng.below(2) as usize;
        p.presend = rng.below(4) as u32;
        // only `send` and `send_with` exist on the log channel
        for ops in p.producers.iter_mut() {
            for o in ops.iter_mut() {
                *o = if rng.chance(1, 2) { Entry::Send } else { Entry::SendWith };
            }
        }
        if p.producers.len() < 2 && rng.chance(1, 2) {
            p.producers.push(vec![Entry::Send, Entry::SendWith]);
        }
        // late subscriptions: at most 4 streams in total
        let room = 4 - p.listeners;
        p.churn = match rng.below(5) {
            0 => vec![ChurnOp::AddOldAndNew],
            1 => vec![ChurnOp::AddSplit],
            2 => vec![ChurnOp::Add, ChurnOp::AddOldAndNew],
            3 => vec![ChurnOp::AddSplit, ChurnOp::Add],
            _ => vec![ChurnOp::AddOldAndNew, ChurnOp::AddSplit],
        };
        let mut used = 0;
        p.churn.retain(|op| {
            let need = if *op == ChurnOp::AddSplit { 2 } else { 1 };
            if used + need <= room {
                used += need;
                true
            } else {
                false
            }
        });
        p
    }
    fn body(&self, p: &MultiParams) -> Option<Body> {
        let p2 = p.clone();
        Some(Arc::new(move || {
            let data = multi_body(&p2, true, false);
            if ctx::aborted() {
                return;
            }
            let key = |oracle: &str| format!("mmap_log/{}", oracle);
            // H: the one total order = order of slot addresses
            let mut h: Vec<(usize, u32)> = vec![];
            for e in data.events.iter().filter(|e| e.kind == EvKind::Poll && e.accepted) {
                if !h.iter().any(|(_, id)| *id == e.id) {
                    h.push((e.addr, e.id));
                }
            }
            h.sort_unstable();
            let order: Vec<u32> = h.iter().map(|(_, id)| *id).collect();
            let accepted: Vec<&Ev> = data.events.iter().filter(|e| matches!(e.kind, EvKind::SendOp(_)) && e.accepted).collect();
            // consistent with each producer's send order (ids increase per producer; presends first)
            for w in 0..order.len() {
                for v in w + 1..order.len() {
                    let (a, b) = (order[w], order[v]);
                    if a >> 8 == b >> 8 && a > b {
                        ctx::report("C09", "order_vs_producer", key("order_vs_producer"), format!("the log orders {:#x} before {:#x} although the same producer sent them the other way round", a, b));
                    }
                }
            }
            check_same_allocation("C09", "mmap_log", &p2, &data);
            for l in data.listeners.iter() {
                let ys: Vec<u32> = yields_of(&data, l.thread_no).iter().map(|(id, _, _)| *id).collect();
                let intact = yields_of(&data, l.thread_no).iter().all(|(_, _, ok)| *ok);
                if !intact {
                    ctx::report("C09", "payload_corrupted", key("payload_corrupted"), format!("listener t{} yielded a reference to a slot that does not hold a sent event", l.thread_no));
                }
                // each listener's sequence is a contiguous slice of H
                let pos: Vec<Option<usize>> = ys.iter().map(|id| order.iter().position(|o| o == id)).collect();
                if pos.iter().any(|p| p.is_none()) || pos.windows(2).any(|w| w[0].unwrap() + 1 != w[1].unwrap()) {
                    ctx::report("C09", "not_a_slice_of_the_history", key("not_a_slice_of_the_history"), format!("listener t{} ({:?}{}) yielded {:x?}, which is not a gapless, duplicate-free slice of the total order {:x?}", l.thread_no, l.how, if l.old_half { ", old half" } else { "" }, ys, order));
                    continue;
                }
                match (l.how, l.old_half) {
                    (Subscribe::OldAndNewJoined, _) => {
                        if ys.len() != accepted.len() || ys != order {
                            ctx::report("C09", "joined_incomplete", key("joined_incomplete"), format!("old+new listener t{} yielded {:x?}; the whole history is {:x?} ({} accepted events)", l.thread_no, ys, order, accepted.len()));
                        }
                    }
                    (Subscribe::New, _) => {
                        // a suffix containing every event whose send started after the subscription returned
                        if !ys.is_empty() && pos.last().unwrap().unwrap() != order.len() - 1 {
                            ctx::report("C09", "new_not_a_suffix", key("new_not_a_suffix"), format!("new-events listener t{} yielded {:x?}, not a suffix of {:x?}", l.thread_no, ys, order));
                        }
                        for e in accepted.iter() {
                            if e.inv > l.created.1 && !ys.contains(&e.id) {
                                ctx::report("C09", "new_missed", key("new_missed"), format!("new-events listener t{} never yielded {:#x}, sent after the subscription returned", l.thread_no, e.id));
                            }
                            if e.ret < l.created.0 && ys.contains(&e.id) {
                                ctx::report("C09", "new_saw_the_past", key("new_saw_the_past"), format!("new-events listener t{} yielded {:#x}, accepted before the subscription", l.thread_no, e.id));
                            }
                        }
                    }
                    (Subscribe::OldAndNewSplit, true) => {
                        // the pair: old = H[0..k), new = H[k..]
                        let new_half = data.listeners.iter().find(|o| o.how == Subscribe::OldAndNewSplit && !o.old_half && o.created == l.created);
                        if let Some(nh) = new_half {
                            let new_ys: Vec<u32> = yields_of(&data, nh.thread_no).iter().map(|(id, _, _)| *id).collect();
                            let mut joined = ys.clone();
                            joined.extend(new_ys.iter().copied());
                            if joined != order {
                                ctx::report("C09", "split_not_a_partition", key("split_not_a_partition"), format!("old half yielded {:x?}, new half {:x?}; together they must be exactly the history {:x?} (no event missing, none in both)", ys, new_ys, order));
                            }
                        }
                    }
                    _ => {}
                }
            }
        }))
    }
}
