//! Scenario family `uni_conc`: concurrent producers (all entry points) against concurrently driven consumer streams
//! of one Uni channel. Decides C01 (conservation), C04 (no lost wake-up; "no flush" verdict at quiescence) and feeds
//! C02 (the recorded history goes to the linearizability checker).

use crate::chan::{self, ChanDyn, Gate, HandleDyn, Kind, SendOutcome, StreamDyn};
use crate::ctx::{self, harness_point, harness_yield, SchedSpec};
use crate::engine_t::Body;
use crate::framework::{Scenario, Tier};
use crate::harness;
use crate::payload::Tracked;
use crate::rng::Rng;
use serde::{Deserialize, Serialize};
use std::collections::BTreeMap;
use crate::harness::HLock as Mutex;
use std::sync::Arc;
use std::task::{Context, Poll};

#[derive(Clone, Copy, Debug, Serialize, Deserialize, PartialEq, Eq)]
pub enum Entry {
    Send,
    SendWith,
    SendAsync { suspend: u32 },
    Reserve,
    /// Multi Arc kinds: `send_derived()` with an externally built `Arc`
    SendDerived,
}

impl Entry {
    pub fn name(self) -> &'static str {
        match self {
            Entry::Send => "send",
            Entry::SendWith => "send_with",
            Entry::SendAsync { .. } => "send_with_async",
            Entry::Reserve => "reserve+try_send_reserved",
            Entry::SendDerived => "send_derived",
        }
    }
}

#[derive(Clone, Debug, Serialize, Deserialize)]
pub struct UniParams {
    pub sched: SchedSpec,
    pub kind: Kind,
    pub buffer: usize,
    pub max_streams: usize,
    pub streams: usize,
    pub prefill: u32,
    /// per producer thread: its operations, in order
    pub producers: Vec<Vec<Entry>>,
    /// how many yielded handles each driver keeps before releasing the oldest
    pub hold: u32,
    /// probability (per 1024) that a driver re-polls without having been woken (only while producers are active)
    pub spurious_poll: u32,
    /// drivers hand a different waker to every poll (legal for executors)
    pub waker_churn: bool,
    /// threads working through the reservation API with several reservations outstanding at a time (C08)
    #[serde(default)]
    pub reservers: Vec<Vec<ROp>>,
}

/// one step of a reserving thread (each thread keeps its own list of outstanding reservations, oldest first)
#[derive(Clone, Copy, Debug, Serialize, Deserialize, PartialEq, Eq)]
pub enum ROp {
    Reserve,
    /// fill (if not yet) and `try_send_reserved` my oldest / newest outstanding reservation (retried until it answers true)
    SendOldest,
    SendNewest,
    /// `try_cancel_slot_reserve` my newest outstanding reservation (retried until it answers true)
    CancelNewest,
    /// a plain `send` (movable atomic channel: only while this thread has no reservation outstanding)
    PlainSend,
    /// ONE `try_cancel_slot_reserve` attempt on my newest outstanding reservation: if it answers false (another thread
    /// took a newer slot meanwhile) the reservation stays and is sent later
    TryCancelNewestOnce,
}

#[derive(Clone, Copy, Debug, PartialEq, Eq)]
pub enum EvKind {
    SendOp(Entry),
    Poll,
    Release,
}

#[derive(Clone, Debug)]
pub struct Ev {
    pub thread: usize,
    pub kind: EvKind,
    pub id: u32,
    pub inv: u64,
    pub ret: u64,
    /// SendOp: accepted? ; Poll: Some(id) yielded? (id field), Pending => accepted=false & ended=false
    pub accepted: bool,
    pub ended: bool,
    pub intact: bool,
    pub setter_invoked_on_reject: bool,
    pub addr: usize,
    /// SendOp: wake-ups this operation delivered to a waker / wake attempts of it that found no waker registered
    pub wakes_delivered: u32,
    pub wake_misses: u32,
}

#[derive(Default)]
pub struct Shared {
    pub events: Vec<Ev>,
    /// (driver's thread number, stamp before, stamp after) of every `drop(stream)` a driver executed
    pub drops: Vec<(usize, u64, u64)>,
    pub producers_active: usize,
}

pub type ChanArc = Arc<Box<dyn ChanDyn>>;

/// what the scenario body hands back for the oracles
pub struct UniRunData {
    pub events: Vec<Ev>,
    /// a producer was still inside a (waiting) send while every stream was parked without a pending wake
    pub blocked_producer: bool,
    pub stuck_at_quiescence: Vec<u32>,
    pub pending_at_quiescence: u32,
    pub wakes_at_quiescence: u64,
    /// ownership mode only (C05)
    pub own: Option<OwnData>,
}

/// what the ownership mode (C05's engine-T scenario) found out at the end of a run
#[derive(Default, Debug, Clone)]
pub struct OwnData {
    /// at quiescence, channel alive, everything consumed and released: (event, created, destroyed) of those not destroyed exactly once
    pub undestroyed_after_release: Vec<(u32, u32, u32)>,
    /// (sends accepted into the emptied channel, a further one accepted?)
    pub capacity_after: Option<(u32, bool)>,
    /// after the final drain
    pub undestroyed_at_end: Vec<(u32, u32, u32)>,
}

pub fn event_id(producer: usize, seq: usize) -> u32 {
    (((producer + 1) as u32) << 8) | (seq as u32 + 1)
}
pub fn prefill_id(i: u32) -> u32 {
    0x7F00 | (i + 1)
}

pub fn do_send(ch: &ChanArc, entry: Entry, id: u32) -> (bool, bool, bool) {
    // returns (accepted, returned_intact, setter_invoked_on_reject)
    let outcome = match entry {
        Entry::Send => ch.send(id),
        Entry::SendWith => ch.send_with(id),
        Entry::SendAsync { suspend } => {
            let fut = ch.send_with_async(id, Gate::new(suspend));
            match harness::block_on_sim(fut, |_| true) {
                Some(o) => o,
                None => return (false, true, false),
            }
        }
        Entry::SendDerived => ch.send_derived(id),
        Entry::Reserve => match ch.reserve() {
            None => SendOutcome::Rejected { returned_intact: true, setter_invoked: false },
            Some(slot) => {
                harness_point();
                ch.fill(slot, id);
                let mut spins = 0u32;
                while !ch.send_reserved(slot) {
                    harness_yield();
                    spins += 1;
                    if ctx::aborted() {
                        return (false, true, false);
                    }
                    if spins > 50_000 {
                        panic!("harness: try_send_reserved never answered true");
                    }
                }
                SendOutcome::Accepted
            }
        },
    };
    match outcome {
        SendOutcome::Accepted => (true, true, false),
        SendOutcome::Rejected { returned_intact, setter_invoked } => (false, returned_intact, setter_invoked),
        SendOutcome::Fatal => (false, false, false),
    }
}

pub fn producer_thread(ch: ChanArc, shared: Arc<Mutex<Shared>>, t: usize, ops: Vec<Entry>) {
    for (seq, entry) in ops.iter().enumerate() {
        let id = event_id(t, seq);
        let inv = ctx::stamp();
        let (w0, m0) = ctx::my_wake_counters();
        ctx::op_mark(entry.name());
        let (accepted, intact, invoked) = do_send(&ch, *entry, id);
        ctx::op_mark("");
        let (w1, m1) = ctx::my_wake_counters();
        let ret = ctx::stamp();
        ctx::with_ctx(|c| {
            c.ledger.sent_done.insert(id);
        });
        ctx::trace(|| format!("producer {} {}({:#x}) -> {}", t, entry.name(), id, if accepted { "accepted" } else { "rejected" }));
        shared.lock().unwrap().events.push(Ev { thread: t, kind: EvKind::SendOp(*entry), id, inv, ret, accepted, ended: false, intact, setter_invoked_on_reject: invoked, addr: 0, wakes_delivered: w1 - w0, wake_misses: m1 - m0 });
        if ctx::aborted() {
            break;
        }
    }
    shared.lock().unwrap().producers_active -= 1;
}

pub fn reserver_id(thread: usize, seq: usize) -> u32 {
    0x4000 | (((thread + 1) as u32) << 8) | (seq as u32 + 1)
}

/// A thread using the reservation API with several reservations outstanding. Sent slots are recorded as accepted
/// `Entry::Reserve` sends, cancelled ones (and reservations refused for lack of room) as rejected ones.
pub fn reserver_thread(ch: ChanArc, shared: Arc<Mutex<Shared>>, t: usize, ops: Vec<ROp>) {
    struct Res {
        slot: usize,
        id: u32,
        filled: bool,
        inv: u64,
    }
    let kind = ch.kind();
    let thread = 20 + t;
    let mut out: Vec<Res> = vec![];
    let mut seq = 0usize;
    let push = |shared: &Arc<Mutex<Shared>>, id: u32, inv: u64, accepted: bool, entry: Entry| {
        let ret = ctx::stamp();
        if accepted {
            ctx::with_ctx(|c| {
                c.ledger.sent_done.insert(id);
            });
        }
        shared.lock().unwrap().events.push(Ev { thread, kind: EvKind::SendOp(entry), id, inv, ret, accepted, ended: false, intact: true, setter_invoked_on_reject: false, addr: 0, wakes_delivered: 0, wake_misses: 0 });
    };
    let resolve = |ch: &ChanArc, shared: &Arc<Mutex<Shared>>, mut r: Res, cancel: bool| {
        if cancel {
            // pooled kinds destroy the slot's content when it is cancelled: it must be initialised; the movable ring
            // never destroys it: nothing needing a destructor may have been written
            if kind != Kind::UniMoveAtomic && !r.filled {
                ch.fill(r.slot, r.id);
                r.filled = true;
            }
            ctx::op_mark("try_cancel_slot_reserve");
            let mut spins = 0u32;
            while !ch.cancel_reserved(r.slot) {
                harness_yield();
                spins += 1;
                if ctx::aborted() {
                    return;
                }
                if spins > 50_000 {
                    panic!("harness: try_cancel_slot_reserve never answered true");
                }
            }
            ctx::op_mark("");
            ctx::trace(|| format!("reserver {} cancelled {:#x}", t, r.id));
            push(shared, r.id, r.inv, false, Entry::Reserve);
        } else {
            if !r.filled {
                ch.fill(r.slot, r.id);
            }
            ctx::op_mark("try_send_reserved");
            let mut spins = 0u32;
            while !ch.send_reserved(r.slot) {
                harness_yield();
                spins += 1;
                if ctx::aborted() {
                    return;
                }
                if spins > 50_000 {
                    panic!("harness: try_send_reserved never answered true");
                }
            }
            ctx::op_mark("");
            ctx::trace(|| format!("reserver {} sent reserved {:#x}", t, r.id));
            push(shared, r.id, r.inv, true, Entry::Reserve);
        }
    };
    for op in ops {
        if ctx::aborted() {
            break;
        }
        harness_point();
        match op {
            ROp::Reserve => {
                let id = reserver_id(t, seq);
                seq += 1;
                let inv = ctx::stamp();
                ctx::op_mark("reserve_slot");
                let got = ch.reserve();
                ctx::op_mark("");
                match got {
                    Some(slot) => {
                        if out.iter().any(|r| r.slot == slot) {
                            ctx::report("C08", "slot_reserved_twice", format!("reserve_conc/{}/slot_reserved_twice", kind.name()), format!("reserve_slot() handed thread {} a slot it still holds reserved", t));
                        }
                        out.push(Res { slot, id, filled: false, inv });
                    }
                    None => push(&shared, id, inv, false, Entry::Reserve),
                }
            }
            ROp::SendOldest | ROp::SendNewest => {
                if out.is_empty() {
                    continue;
                }
                // the movable ring publishes in reservation order: sending a newer slot first would wait for myself
                let i = if op == ROp::SendOldest || kind == Kind::UniMoveAtomic { 0 } else { out.len() - 1 };
                let r = out.remove(i);
                resolve(&ch, &shared, r, false);
            }
            ROp::CancelNewest => {
                if let Some(r) = out.pop() {
                    if kind == Kind::UniMoveAtomic && r.filled {
                        out.push(r);
                        continue;
                    }
                    resolve(&ch, &shared, r, true);
                }
            }
            ROp::TryCancelNewestOnce => {
                if let Some(r) = out.pop() {
                    if r.filled {
                        out.push(r);
                        continue;
                    }
                    ctx::op_mark("try_cancel_slot_reserve[one attempt]");
                    let ok = ch.cancel_reserved(r.slot);
                    ctx::op_mark("");
                    ctx::trace(|| format!("reserver {} tried to cancel {:#x}: {}", t, r.id, ok));
                    if ok {
                        push(&shared, r.id, r.inv, false, Entry::Reserve);
                    } else {
                        out.push(r);
                    }
                }
            }
            ROp::PlainSend => {
                if kind == Kind::UniMoveAtomic && !out.is_empty() {
                    continue;
                }
                let id = reserver_id(t, seq);
                seq += 1;
                let inv = ctx::stamp();
                ctx::op_mark("send");
                let (accepted, _, _) = do_send(&ch, Entry::Send, id);
                ctx::op_mark("");
                push(&shared, id, inv, accepted, Entry::Send);
            }
        }
    }
    // every reservation is eventually sent (oldest first)
    while !out.is_empty() && !ctx::aborted() {
        let r = out.remove(0);
        resolve(&ch, &shared, r, false);
    }
    shared.lock().unwrap().producers_active -= 1;
}

pub struct DriverCfg {
    pub hold: u32,
    pub spurious_poll: u32,
    pub waker_churn: bool,
}

fn release_one(shared: &Arc<Mutex<Shared>>, thread_no: usize, own: bool, id: u32, h: Box<dyn HandleDyn>) {
    let (hid, ok) = (h.id(), h.intact());
    let inv = ctx::stamp();
    if own {
        crate::scn_held::own_release(id, h);
    } else {
        drop(h);
    }
    let ret = ctx::stamp();
    shared.lock().unwrap().events.push(Ev { thread: thread_no, kind: EvKind::Release, id: hid, inv, ret, accepted: true, ended: false, intact: ok, setter_invoked_on_reject: false, addr: 0, wakes_delivered: 0, wake_misses: 0 });
}

/// A stream driven the way an executor would: polled, parked on Pending, re-polled when woken.
/// In ownership mode (`Ledger::own`, C05) the driver also behaves like an owner of what it is yielded: see `scn_held`.
pub fn driver_thread(mut stream: Box<dyn StreamDyn>, shared: Arc<Mutex<Shared>>, driver: usize, thread_no: usize, cfg: DriverCfg) {
    harness::register_current_thread(driver);
    let mut waker = harness::waker_for(driver);
    let own_cfg = crate::scn_held::own_cfg();
    let own = own_cfg.is_some();
    let mut held: Vec<(u32, Box<dyn HandleDyn>)> = vec![];
    let mut churn_left = 3;
    loop {
        if harness::with_driver(driver, |d| d.stop.get()) || ctx::aborted() {
            break;
        }
        if cfg.waker_churn && churn_left > 0 && ctx::draw_below(4) == 0 {
            // an executor may hand a different waker to any poll (bounded: a fresh waker on *every* poll makes the
            // stream wake itself forever, which is legal busy-polling but never quiesces)
            churn_left -= 1;
            ctx::fault_fired("waker_churn");
            waker = harness::waker_for(driver);
        }
        let mut cx = Context::from_waker(&waker);
        let inv = ctx::stamp();
        ctx::op_mark("poll_next");
        let polled = stream.poll(&mut cx);
        ctx::op_mark("");
        let ret = ctx::stamp();
        harness::with_driver(driver, |d| d.polls.set(d.polls.get() + 1));
        match polled {
            Poll::Ready(Some(handle)) => {
                let (id, intact, addr) = (handle.id(), handle.intact(), handle.addr());
                ctx::trace(|| format!("driver {} yielded {:#x}", driver, id));
                shared.lock().unwrap().events.push(Ev { thread: thread_no, kind: EvKind::Poll, id, inv, ret, accepted: true, ended: false, intact, setter_invoked_on_reject: false, addr, wakes_delivered: 0, wake_misses: 0 });
                if own {
                    crate::scn_held::own_on_yield(id, &*handle);
                }
                held.push((id, handle));
                if let Some(oc) = own_cfg.as_ref() {
                    crate::scn_held::own_extras(oc, &mut held);
                }
                while held.len() > cfg.hold as usize {
                    // ownership mode: any of the held handles may go first
                    let i = if own { ctx::draw_below(held.len() as u64) as usize } else { 0 };
                    let (hid, h) = held.remove(i);
                    release_one(&shared, thread_no, own, hid, h);
                }
                if own {
                    crate::scn_held::own_touch(&held);
                }
                harness_point();
            }
            Poll::Ready(None) => {
                ctx::trace(|| format!("driver {} got end-of-stream", driver));
                shared.lock().unwrap().events.push(Ev { thread: thread_no, kind: EvKind::Poll, id: 0, inv, ret, accepted: false, ended: true, intact: true, setter_invoked_on_reject: false, addr: 0, wakes_delivered: 0, wake_misses: 0 });
                break;
            }
            Poll::Pending => {
                shared.lock().unwrap().events.push(Ev { thread: thread_no, kind: EvKind::Poll, id: 0, inv, ret, accepted: false, ended: false, intact: true, setter_invoked_on_reject: false, addr: 0, wakes_delivered: 0, wake_misses: 0 });
                // release everything held before parking (an executor task that awaits the next item keeps nothing)
                while !held.is_empty() {
                    let (hid, h) = held.remove(0);
                    release_one(&shared, thread_no, own, hid, h);
                }
                let producers_active = shared.lock().unwrap().producers_active > 0;
                if producers_active && cfg.spurious_poll > 0 && ctx::draw_below(1024) < cfg.spurious_poll as u64 {
                    ctx::fault_fired("spurious_poll");
                    harness::take_token(driver);
                    harness_yield();
                    continue;
                }
                ctx::trace(|| format!("driver {} parks", driver));
                if !harness::park_until_woken(driver) {
                    break;
                }
                ctx::trace(|| format!("driver {} woken", driver));
            }
        }
    }
    while !held.is_empty() {
        let (hid, h) = held.remove(0);
        release_one(&shared, thread_no, own, hid, h);
    }
    let drop_inv = ctx::stamp();
    drop(stream);
    let drop_ret = ctx::stamp();
    shared.lock().unwrap().drops.push((thread_no, drop_inv, drop_ret));
    harness::mark_done(driver);
}

fn yielded_count(shared: &Arc<Mutex<Shared>>) -> usize {
    shared.lock().unwrap().events.iter().filter(|e| e.kind == EvKind::Poll && e.accepted).count()
}

/// The body of one run (executes as the main simulated thread).
pub fn uni_body(p: &UniParams, flush_and_end: bool) -> UniRunData {
    uni_body_ex(p, flush_and_end, false)
}

/// `own`: ownership mode (C05) -- a releaser thread takes the handles the drivers hand over; at quiescence the
/// destruction ledger is judged, then the emptied channel's capacity, then a final drain
pub fn uni_body_ex(p: &UniParams, flush_and_end: bool, own: bool) -> UniRunData {
    harness::reset();
    let ch: ChanArc = Arc::new(chan::make::<Tracked>(p.kind, p.buffer, p.max_streams, "unused"));
    let shared = Arc::new(Mutex::new(Shared { events: vec![], drops: vec![], producers_active: p.producers.len() + p.reservers.len() }));
    // events already pending when the sends start
    for i in 0..p.prefill {
        let id = prefill_id(i);
        let inv = ctx::stamp();
        let accepted = ch.send(id).accepted();
        let ret = ctx::stamp();
        shared.lock().unwrap().events.push(Ev { thread: 0, kind: EvKind::SendOp(Entry::Send), id, inv, ret, accepted, ended: false, intact: true, setter_invoked_on_reject: false, addr: 0, wakes_delivered: 0, wake_misses: 0 });
    }
    let mut drivers = vec![];
    let mut handles = vec![];
    let n_prod = p.producers.len();
    for s in 0..p.streams {
        let stream = ch.create_stream();
        let d = harness::new_driver();
        drivers.push(d);
        let shared2 = Arc::clone(&shared);
        let cfg = DriverCfg { hold: p.hold, spurious_poll: p.spurious_poll, waker_churn: p.waker_churn };
        let thread_no = 1 + n_prod + s;
        handles.push(shuttle::thread::spawn(move || driver_thread(stream, shared2, d, thread_no, cfg)));
    }
    let releaser = if own { Some(shuttle::thread::spawn(crate::scn_held::releaser_thread)) } else { None };
    if own {
        // the events put in before anything else started count as sent
        ctx::with_ctx(|c| {
            for i in 0..p.prefill {
                c.ledger.sent_done.insert(prefill_id(i));
            }
        });
    }
    let mut prod_handles = vec![];
    #[allow(clippy::needless_range_loop)]
    for (t, ops) in p.producers.iter().enumerate() {
        let (ch2, shared2, ops2) = (Arc::clone(&ch), Arc::clone(&shared), ops.clone());
        prod_handles.push(shuttle::thread::spawn(move || producer_thread(ch2, shared2, t, ops2)));
    }
    for (t, ops) in p.reservers.iter().enumerate() {
        let (ch2, shared2, ops2) = (Arc::clone(&ch), Arc::clone(&shared), ops.clone());
        prod_handles.push(shuttle::thread::spawn(move || reserver_thread(ch2, shared2, t, ops2)));
    }
    // wait for the producers. A producer that (by documented design: the crossbeam setter-based sends) waits for room
    // while every stream is parked without a pending wake can never finish: that is a lost wake-up too, and is
    // detected here instead of spinning to the step cap
    let mut blocked_producer = false;
    let mut idle_rounds = 0u64;
    let (mut steps0, mut events0) = (0u64, 0usize);
    while shared.lock().unwrap().producers_active > 0 && !ctx::aborted() {
        if harness::all_quiescent(&drivers) {
            let (steps_now, events_now) = (ctx::with_ctx(|c| c.steps).unwrap_or(0), shared.lock().unwrap().events.len());
            if idle_rounds == 0 || events_now != events0 {
                idle_rounds = 0;
                steps0 = steps_now;
                events0 = events_now;
            }
            idle_rounds += 1;
            // somebody other than this thread executed > 1500 scheduling points without completing any operation while
            // every stream stayed parked: only producers can be running, so they are spinning inside a send
            if steps_now - steps0 > idle_rounds + 1500 {
                blocked_producer = true;
                break;
            }
            if idle_rounds > 30_000 {
                panic!("harness: producers neither finish nor run");
            }
        } else {
            idle_rounds = 0;
        }
        harness_yield();
    }
    if !blocked_producer {
        for h in prod_handles.drain(..) {
            let _ = h.join();
        }
    }
    // quiescence: every driver finished or parked without a wake token -- nobody is left who could call wake
    harness::wait_quiescent(&drivers);
    let (stuck, wakes) = {
        let sh = shared.lock().unwrap();
        let mut accepted: BTreeMap<u32, u64> = BTreeMap::new();
        for e in sh.events.iter() {
            if let EvKind::SendOp(_) = e.kind {
                if e.accepted {
                    accepted.insert(e.id, e.ret);
                }
            }
        }
        for e in sh.events.iter() {
            if e.kind == EvKind::Poll && e.accepted {
                accepted.remove(&e.id);
            }
        }
        let mut stuck: Vec<(u32, u64)> = accepted.into_iter().collect();
        stuck.sort_by_key(|(_, ret)| *ret);
        let wakes = drivers.iter().map(|d| harness::with_driver(*d, |s| s.wakes.get())).sum();
        (stuck.into_iter().map(|(id, _)| id).collect::<Vec<u32>>(), wakes)
    };
    // (informational only; the verdict above was taken without any scheduling point after the last quiescence check)
    let pending = ch.pending();
    if blocked_producer {
        // let the blocked producer finish: wake the streams by hand until the producers are done
        let mut rounds = 0;
        while shared.lock().unwrap().producers_active > 0 && !ctx::aborted() && rounds < 10_000 {
            for d in drivers.iter() {
                harness::kick(*d);
            }
            harness_yield();
            rounds += 1;
        }
        for h in prod_handles.drain(..) {
            let _ = h.join();
        }
        harness::wait_quiescent(&drivers);
    }
    if flush_and_end && !ctx::aborted() {
        // harness-side flush: wake every driver until nothing more comes out (so a lost wake-up cannot pose as a lost event)
        loop {
            let before = yielded_count(&shared);
            for d in drivers.iter() {
                harness::kick(*d);
            }
            harness::wait_quiescent(&drivers);
            if yielded_count(&shared) == before || ctx::aborted() {
                break;
            }
        }
    }
    let mut own_data = None;
    if own && !ctx::aborted() {
        let mut od = OwnData::default();
        // everything the drivers handed over has been dropped by the releaser thread
        let mut spins = 0u64;
        while !crate::scn_held::releaser_idle() && !ctx::aborted() {
            harness_yield();
            spins += 1;
            if spins > 100_000 {
                panic!("harness: the releaser thread never became idle");
            }
        }
        // verdict 1: channel alive, every driver parked holding nothing: whatever was yielded (or rejected) is destroyed
        let judged: Vec<u32> = shared.lock().unwrap().events.iter().filter(|e| (e.kind == EvKind::Poll && e.accepted) || (matches!(e.kind, EvKind::SendOp(_)) && !e.accepted)).map(|e| e.id).collect();
        od.undestroyed_after_release = crate::scn_held::not_destroyed_once(&judged);
        // stop the consumers (their streams are dropped) and the releaser
        for d in drivers.iter() {
            harness::stop_driver(*d);
        }
        for h in handles.drain(..) {
            let _ = h.join();
        }
        crate::scn_held::stop_releaser();
        if let Some(h) = releaser {
            let _ = h.join();
        }
        let all_delivered = {
            let sh = shared.lock().unwrap();
            sh.events.iter().filter(|e| matches!(e.kind, EvKind::SendOp(_)) && e.accepted).all(|s| sh.events.iter().any(|e| e.kind == EvKind::Poll && e.accepted && e.id == s.id))
        };
        if !ctx::aborted() && all_delivered {
            // verdict 2: the emptied channel takes exactly BUFFER_SIZE events
            let mut accepted = 0u32;
            for i in 0..p.buffer as u32 {
                if ch.send(0x7D00 | (i + 1)).accepted() {
                    accepted += 1;
                }
            }
            let one_more = ch.send(0x7DFF).accepted();
            od.capacity_after = Some((accepted, one_more));
            // final drain through a fresh stream (its id was vacated by the streams dropped above)
            let waker = futures::task::noop_waker();
            let mut cx = Context::from_waker(&waker);
            let mut stream = ch.create_stream();
            let mut guard = 0;
            while let Poll::Ready(Some(h)) = stream.poll(&mut cx) {
                drop(h);
                guard += 1;
                if guard > 64 {
                    break;
                }
            }
            drop(stream);
            // verdict 3: nothing buffered, nothing held: every payload ever created is gone
            let all: Vec<u32> = ctx::with_ctx(|c| c.ledger.ids.keys().copied().collect()).unwrap_or_default();
            od.undestroyed_at_end = crate::scn_held::not_destroyed_once(&all);
        }
        own_data = Some(od);
    } else if let Some(h) = releaser {
        crate::scn_held::stop_releaser();
        if !ctx::aborted() {
            let _ = h.join();
        }
    }
    // end of run: tell the streams to end, then stop the drivers whatever they answered
    if !ctx::aborted() && !own {
        ch.cancel_all();
    }
    for d in drivers.iter() {
        harness::stop_driver(*d);
    }
    for h in handles {
        let _ = h.join();
    }
    let events = std::mem::take(&mut shared.lock().unwrap().events);
    UniRunData { events, blocked_producer, stuck_at_quiescence: stuck, pending_at_quiescence: pending, wakes_at_quiescence: wakes, own: own_data }
}

pub fn entry_of(events: &[Ev], id: u32) -> &'static str {
    for e in events {
        if e.id == id {
            if let EvKind::SendOp(entry) = e.kind {
                return entry.name();
            }
        }
    }
    "prefill"
}

/// C01's oracle over the recorded history
pub fn oracle_conservation(p: &UniParams, data: &UniRunData) {
    let kind = p.kind.name();
    let mut accepted: BTreeMap<u32, &Ev> = BTreeMap::new();
    let mut rejected: BTreeMap<u32, &Ev> = BTreeMap::new();
    for e in data.events.iter() {
        if let EvKind::SendOp(_) = e.kind {
            if e.accepted {
                accepted.insert(e.id, e);
            } else {
                rejected.insert(e.id, e);
            }
        }
    }
    let mut yielded: BTreeMap<u32, u32> = BTreeMap::new();
    for e in data.events.iter() {
        if e.kind == EvKind::Poll && e.accepted {
            *yielded.entry(e.id).or_insert(0) += 1;
            if !e.intact {
                ctx::report("C01", "payload_corrupted", format!("uni_conc/{}/{}/payload_corrupted", kind, entry_of(&data.events, e.id)), format!("event {:#x} was yielded with a payload that is not what was sent", e.id));
            }
            if rejected.contains_key(&e.id) {
                ctx::report("C01", "rejected_delivered", format!("uni_conc/{}/{}/rejected_delivered", kind, entry_of(&data.events, e.id)), format!("event {:#x} was rejected as buffer-full but a stream yielded it", e.id));
            } else if !accepted.contains_key(&e.id) {
                ctx::report("C01", "invented", format!("uni_conc/{}/-/invented", kind), format!("a stream yielded {:#x}, which was never sent", e.id));
            }
        }
    }
    for (id, n) in yielded.iter() {
        if *n > 1 && accepted.contains_key(id) {
            ctx::report("C01", "duplicate", format!("uni_conc/{}/{}/duplicate", kind, entry_of(&data.events, *id)), format!("event {:#x} was yielded {} times", id, n));
        }
    }
    for (id, _) in accepted.iter() {
        if !yielded.contains_key(id) {
            ctx::report("C01", "lost", format!("uni_conc/{}/{}/lost", kind, entry_of(&data.events, *id)), format!("event {:#x} was accepted but never yielded, even after every stream was woken until nothing more came out (pending_items_count={})", id, data.pending_at_quiescence));
        }
    }
    for (id, e) in rejected.iter() {
        if !e.intact {
            ctx::report("C01", "rejected_not_intact", format!("uni_conc/{}/{}/rejected_not_intact", kind, entry_of(&data.events, *id)), format!("the payload of rejected event {:#x} was not handed back unchanged", id));
        }
        if e.setter_invoked_on_reject {
            ctx::report("C01", "rejected_setter_invoked", format!("uni_conc/{}/{}/rejected_setter_invoked", kind, entry_of(&data.events, *id)), format!("the setter of rejected event {:#x} had been invoked", id));
        }
    }
}

pub fn draw_entry(rng: &mut Rng, kind: Kind) -> Entry {
    loop {
        let e = match rng.below(7) {
            0 | 1 => Entry::Send,
            2 | 3 => Entry::SendWith,
            4 => Entry::SendAsync { suspend: rng.below(4) as u32 },
            _ => Entry::Reserve,
        };
        if e == Entry::Reserve && !kind.supports_reserve() {
            continue;
        }
        return e;
    }
}

pub fn draw_uni_params(rng: &mut Rng, tier: Tier, kinds: &[Kind], stream_grid: &[usize], mixed_entries: bool) -> UniParams {
    let kind = *rng.pick(kinds);
    let buffer = *rng.pick(&chan::BUFFERS);
    let max_streams = *rng.pick(stream_grid);
    let streams = 1 + rng.below(max_streams.min(3) as u64) as usize;
    let n_prod = 1 + rng.below(3) as usize;
    let max_ops = if tier == Tier::Thorough { 8 } else { 6 };
    let mut producers = vec![];
    for _ in 0..n_prod {
        let n_ops = 1 + rng.below(max_ops) as usize;
        let single = draw_entry(rng, kind);
        let mut ops = vec![];
        for _ in 0..n_ops {
            let e = if mixed_entries { draw_entry(rng, kind) } else { single };
            // the movable atomic channel permits plain sends only while the calling thread has no reservation outstanding:
            // our Reserve op always completes (send) before the next op of the same thread starts, so any mix is legal
            ops.push(e);
        }
        producers.push(ops);
    }
    let prefill = if rng.chance(1, 2) { 0 } else { rng.below(buffer as u64 + 1) as u32 };
    let mut sched = SchedSpec::draw(rng);
    if rng.chance(1, 5) {
        // sequence counters next to the 32-bit wrap
        sched.origin = u32::MAX - rng.below(3 * buffer as u64 + 2) as u32;
    }
    UniParams {
        sched,
        kind,
        buffer,
        max_streams,
        streams,
        prefill,
        producers,
        hold: if kind.is_zero_copy() { rng.below(3) as u32 } else { 0 },
        spurious_poll: *rng.pick(&[0, 0, 64, 256]),
        waker_churn: rng.chance(1, 4),
        reservers: vec![],
    }
}

pub fn shrink_uni(p: &UniParams) -> Vec<UniParams> {
    let mut out = vec![];
    // drop a producer
    if p.producers.len() > 1 {
        for i in 0..p.producers.len() {
            let mut q = p.clone();
            q.producers.remove(i);
            out.push(q);
        }
    }
    // drop an op
    for i in 0..p.producers.len() {
        if p.producers[i].len() > 1 {
            for j in (0..p.producers[i].len()).rev() {
                let mut q = p.clone();
                q.producers[i].remove(j);
                out.push(q);
            }
        }
    }
    // simpler ops
    for i in 0..p.producers.len() {
        for j in 0..p.producers[i].len() {
            match p.producers[i][j] {
                Entry::SendAsync { suspend } if suspend > 0 => {
                    let mut q = p.clone();
                    q.producers[i][j] = Entry::SendAsync { suspend: 0 };
                    out.push(q);
                }
                _ => {}
            }
        }
    }
    if p.reservers.len() > 1 || (!p.reservers.is_empty() && !p.producers.is_empty()) {
        for i in 0..p.reservers.len() {
            let mut q = p.clone();
            q.reservers.remove(i);
            out.push(q);
        }
    }
    for i in 0..p.reservers.len() {
        if p.reservers[i].len() > 1 {
            for j in (0..p.reservers[i].len()).rev() {
                let mut q = p.clone();
                q.reservers[i].remove(j);
                out.push(q);
            }
        }
    }
    if p.streams > 1 {
        let mut q = p.clone();
        q.streams -= 1;
        out.push(q);
    }
    if p.prefill > 0 {
        let mut q = p.clone();
        q.prefill -= 1;
        out.push(q);
    }
    if p.hold > 0 {
        let mut q = p.clone();
        q.hold = 0;
        out.push(q);
    }
    if p.spurious_poll > 0 {
        let mut q = p.clone();
        q.spurious_poll = 0;
        out.push(q);
    }
    if p.waker_churn {
        let mut q = p.clone();
        q.waker_churn = false;
        out.push(q);
    }
    if p.sched.weak_cas > 0 || p.sched.stall > 0 {
        let mut q = p.clone();
        q.sched.weak_cas = 0;
        q.sched.stall = 0;
        out.push(q);
    }
    if p.sched.origin != 0 {
        let mut q = p.clone();
        q.sched.origin = 0;
        out.push(q);
    }
    if p.max_streams > p.streams {
        let smaller: Vec<usize> = chan::STREAMS.iter().copied().filter(|s| *s >= p.streams && *s < p.max_streams).collect();
        if let Some(s) = smaller.first() {
            let mut q = p.clone();
            q.max_streams = *s;
            out.push(q);
        }
    }
    if p.buffer > 2 {
        let mut q = p.clone();
        q.buffer /= 2;
        q.prefill = q.prefill.min(q.buffer as u32);
        out.push(q);
    }
    out
}

pub fn size_uni(p: &UniParams) -> u64 {
    (p.producers.iter().map(|o| o.len() as u64).sum::<u64>() + p.reservers.iter().map(|o| o.len() as u64).sum::<u64>()) * 4 + p.streams as u64 + p.prefill as u64 + p.buffer as u64
}

// =============================================================================================================
// C01
// =============================================================================================================

pub struct C01;

impl Scenario for C01 {
    type P = UniParams;
    fn property(&self) -> &'static str {
        "C01"
    }
    fn name(&self) -> &'static str {
        "uni_conc"
    }
    fn engine(&self) -> &'static str {
        "T"
    }
    fn generate(&self, rng: &mut Rng, tier: Tier) -> UniParams {
        draw_uni_params(rng, tier, &chan::UNI_KINDS, &chan::STREAMS, true)
    }
    fn sched<'a>(&self, p: &'a UniParams) -> &'a SchedSpec {
        &p.sched
    }
    fn with_sched(&self, p: &UniParams, s: SchedSpec) -> UniParams {
        let mut q = p.clone();
        q.sched = s;
        q
    }
    fn body(&self, p: &UniParams) -> Option<Body> {
        let p2 = p.clone();
        Some(Arc::new(move || {
            let data = uni_body(&p2, true);
            if !ctx::aborted() {
                oracle_conservation(&p2, &data);
            }
        }))
    }
    fn shrink(&self, p: &UniParams) -> Vec<UniParams> {
        shrink_uni(p)
    }
    fn size(&self, p: &UniParams) -> u64 {
        size_uni(p)
    }
    fn assumptions(&self) -> Vec<String> {
        vec![
            "sequential consistency at the instrumented atomics (one simulated thread runs at a time); weak-memory reorderings are not explored".into(),
            "plain shared accesses interleave only at the instrumented yield points (whole accesses, no tearing)".into(),
            "a lost wake-up (C04's subject) is neutralised by a harness-side flush before the conservation oracle runs".into(),
        ]
    }
}

// =============================================================================================================
// C04 (Uni half)
// =============================================================================================================

pub struct C04Uni;

/// Key of a "stuck at quiescence" verdict: which channel and entry point, the stream configuration, whether producers
/// overlapped, how many events were ever sent in the run (`n1`: a lone event into an empty channel, `n2`, `n3+`) and *how*
/// the wake-up got lost: the accepting operation made no wake attempt at all / its attempts found no waker
/// registered / it did deliver a wake-up and the event is stuck nevertheless.
pub fn c04_key(scn: &str, p_kind: Kind, entry: &str, max_streams: usize, streams: usize, producers: usize, total_sends: usize, wakes_delivered: u32, wake_misses: u32) -> String {
    let how = if wakes_delivered == 0 && wake_misses == 0 {
        "no_wake_attempt"
    } else if wakes_delivered == 0 {
        "wake_found_no_waker"
    } else {
        "woke_but_stuck"
    };
    format!("{}/{}/{}/ms{}s{}/{}/{}/{}", scn, p_kind.name(), entry, max_streams, streams, if producers == 1 { "p1" } else { "p2+" }, match total_sends {
        1 => "n1",
        2 => "n2",
        _ => "n3+",
    }, how)
}

impl Scenario for C04Uni {
    type P = UniParams;
    fn property(&self) -> &'static str {
        "C04"
    }
    fn name(&self) -> &'static str {
        "uni_noflush"
    }
    fn engine(&self) -> &'static str {
        "T"
    }
    fn generate(&self, rng: &mut Rng, tier: Tier) -> UniParams {
        // each producer uses one entry point, so that a stuck event is attributable to it
        let mut p = draw_uni_params(rng, tier, &chan::UNI_KINDS, &[1, 2], false);
        // every producer the same entry point in half of the runs
        if rng.chance(1, 2) {
            let e = p.producers[0][0];
            for ops in p.producers.iter_mut() {
                for o in ops.iter_mut() {
                    *o = e;
                }
            }
        }
        p.prefill = p.prefill.min(3);
        // a lone event into an empty channel (the simplest case, where the unchanged tree has no lost wake-up)
        if rng.chance(1, 3) {
            p.producers.truncate(1);
            p.producers[0].truncate(1);
            p.prefill = 0;
        }
        p
    }
    fn sched<'a>(&self, p: &'a UniParams) -> &'a SchedSpec {
        &p.sched
    }
    fn with_sched(&self, p: &UniParams, s: SchedSpec) -> UniParams {
        let mut q = p.clone();
        q.sched = s;
        q
    }
    fn body(&self, p: &UniParams) -> Option<Body> {
        let p2 = p.clone();
        Some(Arc::new(move || {
            let data = uni_body(&p2, false);
            if ctx::aborted() {
                return;
            }
            if let Some(last) = data.stuck_at_quiescence.last() {
                let entry = entry_of(&data.events, *last);
                let total_sends = p2.prefill as usize + p2.producers.iter().map(|o| o.len()).sum::<usize>();
                let (wd, wm) = data.events.iter().find(|e| e.id == *last && matches!(e.kind, EvKind::SendOp(_))).map(|e| (e.wakes_delivered, e.wake_misses)).unwrap_or((0, 0));
                ctx::report(
                    "C04",
                    "stuck_at_quiescence",
                    c04_key("uni_noflush", p2.kind, entry, p2.max_streams, p2.streams, p2.producers.len(), total_sends, wd, wm),
                    format!(
                        "all producers returned and every driven stream is parked without a pending wake, yet accepted events {:x?} were never yielded (pending_items_count={}, wakes received={}); the last one was accepted through {}",
                        data.stuck_at_quiescence, data.pending_at_quiescence, data.wakes_at_quiescence, entry
                    ),
                );
            }
        }))
    }
    fn shrink(&self, p: &UniParams) -> Vec<UniParams> {
        // never shrink what the key is made of in a way that changes the key class... the minimiser checks the key anyway
        shrink_uni(p)
    }
    fn size(&self, p: &UniParams) -> u64 {
        size_uni(p)
    }
    fn assumptions(&self) -> Vec<String> {
        vec![
            "sequential consistency at the instrumented atomics; plain shared accesses interleave only at instrumented yield points".into(),
            "the executor model: a stream is re-polled iff its waker was invoked (spurious polls only while producers are still running, never during the verdict)".into(),
        ]
    }
}

// =============================================================================================================
// C02 (channel level): the recorded history must be explainable by one atomic bounded FIFO queue
// =============================================================================================================

pub struct C02Uni;

pub fn history_to_lin(p: &UniParams, data: &UniRunData) -> (Vec<crate::lin::LinOp>, BTreeMap<u32, u64>) {
    use crate::lin::{LinOp, Res};
    let mut ops = vec![];
    let mut freed_at = BTreeMap::new();
    for e in data.events.iter() {
        match e.kind {
            EvKind::SendOp(_) => ops.push(LinOp { inv: e.inv, ret: e.ret, res: if e.accepted { Res::PushOk } else { Res::PushFull }, value: e.id, thread: e.thread }),
            EvKind::Poll => {
                if e.accepted {
                    ops.push(LinOp { inv: e.inv, ret: e.ret, res: Res::PopSome, value: e.id, thread: e.thread });
                    if !p.kind.is_zero_copy() {
                        freed_at.insert(e.id, e.ret);
                    }
                } else {
                    ops.push(LinOp { inv: e.inv, ret: e.ret, res: Res::PopEmpty, value: 0, thread: e.thread });
                }
            }
            EvKind::Release => {
                if p.kind.is_zero_copy() {
                    freed_at.insert(e.id, e.ret);
                }
            }
        }
    }
    (ops, freed_at)
}

impl Scenario for C02Uni {
    type P = UniParams;
    fn property(&self) -> &'static str {
        "C02"
    }
    fn name(&self) -> &'static str {
        "uni_lin"
    }
    fn engine(&self) -> &'static str {
        "T"
    }
    fn generate(&self, rng: &mut Rng, tier: Tier) -> UniParams {
        let mut p = draw_uni_params(rng, tier, &chan::UNI_KINDS, &chan::STREAMS, true);
        // short histories: the checker's search is exponential in the worst case
        p.streams = p.streams.min(2);
        let mut budget = 8usize;
        for ops in p.producers.iter_mut() {
            ops.truncate(3.min(budget.max(1)));
            budget = budget.saturating_sub(ops.len());
        }
        p.prefill = p.prefill.min(3);
        p.spurious_poll = p.spurious_poll.min(64);
        p
    }
    fn sched<'a>(&self, p: &'a UniParams) -> &'a SchedSpec {
        &p.sched
    }
    fn with_sched(&self, p: &UniParams, s: SchedSpec) -> UniParams {
        let mut q = p.clone();
        q.sched = s;
        q
    }
    fn body(&self, p: &UniParams) -> Option<Body> {
        let p2 = p.clone();
        Some(Arc::new(move || {
            let data = uni_body(&p2, true);
            if ctx::aborted() {
                return;
            }
            let kind = p2.kind.name();
            if data.pending_at_quiescence as usize != data.stuck_at_quiescence.len() && !data.blocked_producer {
                ctx::report("C02", "pending_items_count_at_quiescence", format!("uni_lin/{}/pending_items_count_at_quiescence", kind), format!("at quiescence pending_items_count() answered {} while {} accepted events had not been received", data.pending_at_quiescence, data.stuck_at_quiescence.len()));
            }
            let (ops, freed_at) = history_to_lin(&p2, &data);
            if ops.len() > 48 {
                ctx::with_ctx(|c| *c.probes.entry("harness.lin.history_too_long_unchecked").or_insert(0) += 1);
                return;
            }
            match crate::lin::check(&ops, crate::lin::Discipline::Fifo, p2.buffer, &freed_at, &[]) {
                Ok(states) => {
                    ctx::with_ctx(|c| {
                        *c.probes.entry("harness.lin.histories_checked").or_insert(0) += 1;
                        *c.probes.entry("harness.lin.search_states").or_insert(0) += states;
                        if states == 0 {
                            *c.probes.entry("harness.lin.search_gave_up").or_insert(0) += 1;
                        }
                    });
                }
                Err(e) => ctx::report("C02", e.oracle, format!("uni_lin/{}/{}/{}", kind, e.oracle, if p2.streams >= 2 { "streams2+" } else { "streams1" }), e.detail),
            }
        }))
    }
    fn shrink(&self, p: &UniParams) -> Vec<UniParams> {
        shrink_uni(p)
    }
    fn size(&self, p: &UniParams) -> u64 {
        size_uni(p)
    }
    fn assumptions(&self) -> Vec<String> {
        vec![
            "sequential consistency at the instrumented atomics; plain shared accesses interleave at the instrumented yield points".into(),
            "'buffer full' answers are judged by the interval rule of the statement (accepted and not yet received / not yet released, reserved, or in flight)".into(),
            "histories longer than 48 operations, or whose search exceeds 400000 states, are not judged (counted by probes)".into(),
        ]
    }
}
