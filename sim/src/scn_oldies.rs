//! Engine D: the log channel's `spawn_*oldies_executor` family -- one executor for the events that are already in the
//! log ("oldies"), one for the events sent from then on ("newies"), optionally with a *sequential transition* (the newies
//! executor is only started by the oldies executor's close callback).
//!
//! A producer task keeps sending while the main task, at a drawn virtual instant, spawns the pair; later the Multi is
//! closed. Everything the two pipelines do is recorded in one totally ordered journal.
//!
//! Oracles:
//!   C12  with a sequential transition no new event enters its pipeline before every old event has been fully
//!        processed; each of the two close callbacks runs exactly once, after the last item of its own stream, and finds
//!        the executor in `StreamEnded` (nobody scheduled it to finish)
//!   C09  the two pipelines partition the history at one point: oldies = events 1..=k in order, newies = k+1..=n in
//!        order, nothing missing, nothing in both; k lies between the number of sends completed when the spawn call
//!        started and the number completed when it returned
//!   C06  close(ZERO) returns only after every event was fully processed (reported under C06, incidental here)

use crate::chan;
use crate::ctx::{self, SchedSpec};
use crate::engine_t::{run_passive, RunOut};
use crate::framework::{Scenario, Tier};
use crate::rng::Rng;
use crate::scn_exec::{ExecKind, EXEC_KINDS, I_BOTH, I_NONE};
use futures::stream::StreamExt;
use reactive_mutiny::multi::Multi;
use reactive_mutiny::prelude::advanced::*;
use reactive_mutiny::stream_executor::StreamExecutorStats;
use serde::{Deserialize, Serialize};
use std::sync::atomic::Ordering::Relaxed;
use std::sync::{Arc, Mutex};
use std::time::Duration;

type BoxErr = Box<dyn std::error::Error + Send + Sync>;

#[derive(Clone, Copy, Debug, PartialEq, Eq, Serialize, Deserialize)]
pub struct LogEvent {
    /// virtual time the producer waits before sending this event (0: none; u32::MAX: a bare yield)
    pub gap_ms: u32,
    /// processing time of this event (future kinds)
    pub delay_ms: u32,
    pub fails: bool,
}

#[derive(Clone, Debug, Serialize, Deserialize)]
pub struct OldiesParams {
    pub sched: SchedSpec,
    pub exec: ExecKind,
    /// 0 none, 3 logs+metrics
    pub instruments: u8,
    pub limit: u32,
    pub sequential: bool,
    pub timeout_ms: u32,
    pub events: Vec<LogEvent>,
    /// virtual instant (ms after the producer started) at which the pair of executors is spawned
    pub spawn_at_ms: u32,
    /// virtual time between the producer's last send and the close call (u32::MAX: a bare yield)
    pub close_gap_ms: u32,
    /// processing-time multiplier of the oldies pipeline (a slow replay of the past while new events keep coming)
    pub oldies_slowness: u32,
    /// the newies executor is removed individually (`flush_and_cancel_executor("newies")`) before the Multi is closed
    #[serde(default)]
    pub cancel_newies: bool,
}

#[derive(Clone, Debug, PartialEq, Eq)]
enum J {
    /// the pipeline's `map` closure received the item from the channel's stream
    Pulled(u8, u32),
    /// first poll of the item's future (future kinds) / the synchronous processing (others)
    Start(u8, u32),
    Finish(u8, u32),
    /// the item's future was dropped before it completed (futures timeout)
    Dropped(u8, u32),
    /// close callback invoked: (pipeline, executor status, finish >= start)
    CloseInvoked(u8, String, bool),
    /// the future returned by the close callback ran
    CloseRan(u8, String),
    /// status found 3 ms (virtual) into the close callback's future
    CloseLate(u8, String),
    OnErr(u8),
    SendDone(u32),
    SpawnCalled,
    SpawnReturned(bool),
    CloseCalled,
    CloseReturned(bool, u32, bool, u32),
    CancelNewiesReturned(bool),
}

type Journal = Arc<Mutex<Vec<J>>>;

struct Flight {
    j: Journal,
    pipe: u8,
    id: u32,
    done: bool,
}
impl Flight {
    fn start(j: &Journal, pipe: u8, id: u32) -> Self {
        j.lock().unwrap().push(J::Start(pipe, id));
        Flight { j: Arc::clone(j), pipe, id, done: false }
    }
    fn finish(mut self) {
        self.done = true;
        self.j.lock().unwrap().push(J::Finish(self.pipe, self.id));
    }
}
impl Drop for Flight {
    fn drop(&mut self) {
        if !self.done {
            self.j.lock().unwrap().push(J::Dropped(self.pipe, self.id));
        }
    }
}

const OLD: u8 = 0;
const NEW: u8 = 1;

fn delay_of(p: &OldiesParams, pipe: u8, id: u32) -> u32 {
    let ev = p.events[(id - 1) as usize];
    ev.delay_ms * if pipe == OLD { p.oldies_slowness.max(1) } else { 1 }
}

async fn gap(ms: u32) {
    if ms == u32::MAX {
        tokio::task::yield_now().await;
    } else if ms > 0 {
        tokio::time::sleep(Duration::from_millis(ms as u64)).await;
    }
}

fn oldies_run<const I: usize>(p: &OldiesParams, log_name: &str) -> Vec<J> {
    let rt = tokio::runtime::Builder::new_current_thread().enable_time().start_paused(true).build().expect("tokio runtime");
    let journal: Journal = Default::default();
    let (j, p2, log_name) = (Arc::clone(&journal), p.clone(), log_name.to_string());
    rt.block_on(async move {
        type M<const I: usize> = Multi<u32, ChannelMultiMmapLog<u32, 4>, I, &'static u32>;
        let multi: Arc<M<I>> = Arc::new(Multi::new(log_name));
        // ---- the producer: its own task, so that sends and the spawn call interleave at await points
        let producer = {
            let (multi, j, p) = (Arc::clone(&multi), Arc::clone(&j), p2.clone());
            tokio::spawn(async move {
                for (i, ev) in p.events.iter().enumerate() {
                    gap(ev.gap_ms).await;
                    let id = i as u32 + 1;
                    if let keen_retry::RetryResult::Ok { .. } = multi.send(id) {
                        j.lock().unwrap().push(J::SendDone(id));
                    }
                }
            })
        };
        gap(p2.spawn_at_ms).await;
        // ---- callbacks and pipelines
        let close_cb = |pipe: u8, j: &Journal| {
            let j = Arc::clone(j);
            move |stats: Arc<dyn StreamExecutorStats + Send + Sync>| {
                j.lock().unwrap().push(J::CloseInvoked(pipe, format!("{:?}", stats.executor_status().load(Relaxed)), stats.execution_finish_delta_nanos() >= stats.execution_start_delta_nanos()));
                async move {
                    let status = format!("{:?}", stats.executor_status().load(Relaxed));
                    j.lock().unwrap().push(J::CloseRan(pipe, status));
                    // a close callback may await: the executor must still be found ended afterwards
                    tokio::time::sleep(Duration::from_millis(3)).await;
                    j.lock().unwrap().push(J::CloseLate(pipe, format!("{:?}", stats.executor_status().load(Relaxed))));
                }
            }
        };
        let timeout = Duration::from_millis(p2.timeout_ms as u64);
        j.lock().unwrap().push(J::SpawnCalled);
        macro_rules! fut_pipeline {
            (@out true, $p:ident, $id:ident) => {
                if $p.events[($id - 1) as usize].fails { Err::<u32, BoxErr>(Box::from("failed")) } else { Ok($id) }
            };
            (@out false, $p:ident, $id:ident) => {
                $id
            };
            ($pipe:expr, $fallible:tt) => {{
                let (j, p) = (Arc::clone(&j), p2.clone());
                move |stream: MutinyStream<'static, u32, ChannelMultiMmapLog<u32, 4>, &'static u32>| {
                    stream.map(move |item: &'static u32| {
                        let id = *item;
                        j.lock().unwrap().push(J::Pulled($pipe, id));
                        let (j, p) = (Arc::clone(&j), p.clone());
                        async move {
                            let flight = Flight::start(&j, $pipe, id);
                            let d = delay_of(&p, $pipe, id);
                            if d > 0 {
                                tokio::time::sleep(Duration::from_millis(d as u64)).await;
                            }
                            flight.finish();
                            fut_pipeline!(@out $fallible, p, id)
                        }
                    })
                }
            }};
        }
        macro_rules! sync_pipeline {
            ($pipe:expr, $fallible:tt) => {{
                let (j, p) = (Arc::clone(&j), p2.clone());
                move |stream: MutinyStream<'static, u32, ChannelMultiMmapLog<u32, 4>, &'static u32>| {
                    stream.map(move |item: &'static u32| {
                        let id = *item;
                        j.lock().unwrap().push(J::Pulled($pipe, id));
                        Flight::start(&j, $pipe, id).finish();
                        let _ = &p;
                        fut_pipeline!(@out $fallible, p, id)
                    })
                }
            }};
        }
        let r = match p2.exec {
            ExecKind::FuturesFallible => {
                let je = Arc::clone(&j);
                multi
                    .spawn_oldies_executor(p2.limit, p2.sequential, timeout, "oldies", fut_pipeline!(OLD, true), close_cb(OLD, &j), "newies", fut_pipeline!(NEW, true), close_cb(NEW, &j), move |_err| {
                        let je = Arc::clone(&je);
                        async move {
                            je.lock().unwrap().push(J::OnErr(0));
                        }
                    })
                    .await
                    .map_err(|e| e.to_string())
            }
            ExecKind::Futures => multi.spawn_futures_oldies_executor(p2.limit, p2.sequential, timeout, "oldies", fut_pipeline!(OLD, false), close_cb(OLD, &j), "newies", fut_pipeline!(NEW, false), close_cb(NEW, &j)).await.map_err(|e| e.to_string()),
            ExecKind::Fallibles => {
                let je = Arc::clone(&j);
                multi
                    .spawn_fallibles_oldies_executor(p2.limit, p2.sequential, "oldies", sync_pipeline!(OLD, true), close_cb(OLD, &j), "newies", sync_pipeline!(NEW, true), close_cb(NEW, &j), move |_err| {
                        je.lock().unwrap().push(J::OnErr(0));
                    })
                    .await
                    .map_err(|e| e.to_string())
            }
            ExecKind::Plain => multi.spawn_non_futures_non_fallible_oldies_executor(p2.limit, p2.sequential, "oldies", sync_pipeline!(OLD, false), close_cb(OLD, &j), "newies", sync_pipeline!(NEW, false), close_cb(NEW, &j)).await.map_err(|e| e.to_string()),
        };
        j.lock().unwrap().push(J::SpawnReturned(r.is_ok()));
        let _ = producer.await;
        gap(p2.close_gap_ms).await;
        if p2.cancel_newies {
            let answer = multi.flush_and_cancel_executor("newies", Duration::ZERO).await;
            j.lock().unwrap().push(J::CancelNewiesReturned(answer));
            // an executor that was removed has ceased: its close callback comes now, not when the whole Multi is closed
            tokio::time::sleep(Duration::from_millis(50)).await;
        }
        j.lock().unwrap().push(J::CloseCalled);
        let answer = multi.close(Duration::ZERO).await;
        j.lock().unwrap().push(J::CloseReturned(answer, multi.channel.running_streams_count(), multi.channel.is_channel_open(), multi.channel.pending_items_count()));
        tokio::time::sleep(Duration::from_secs(3600)).await;
        drop(multi);
    });
    ctx::with_ctx(|c| c.sim_time_ns += 3_600_000_000_000);
    drop(rt);
    let out = journal.lock().unwrap().clone();
    out
}

fn judge(p: &OldiesParams, journal: &[J]) {
    let mode = if p.sequential { "sequential" } else { "parallel" };
    let key = |oracle: &str| format!("oldies_exec/{}/{}/{}", p.exec.name(), mode, oracle);
    let pos = |pred: &dyn Fn(&J) -> bool| journal.iter().position(|e| pred(e));
    let last_pos = |pred: &dyn Fn(&J) -> bool| journal.iter().rposition(|e| pred(e));
    for (i, e) in journal.iter().enumerate() {
        ctx::trace(|| format!("journal[{}] {:?}", i, e));
    }
    let spawned_ok = journal.iter().any(|e| matches!(e, J::SpawnReturned(true)));
    if !spawned_ok {
        ctx::report("C12", "spawn_failed", key("spawn_failed"), "spawn_*oldies_executor answered Err".into());
        return;
    }
    let sent: Vec<u32> = journal.iter().filter_map(|e| if let J::SendDone(id) = e { Some(*id) } else { None }).collect();
    let pulled = |pipe: u8| -> Vec<u32> { journal.iter().filter_map(|e| if let J::Pulled(q, id) = e { if *q == pipe { Some(*id) } else { None } } else { None }).collect() };
    let (old, new) = (pulled(OLD), pulled(NEW));
    // ---------------- C09: one split point
    let spawn_called = pos(&|e| matches!(e, J::SpawnCalled)).unwrap_or(0);
    let spawn_returned = pos(&|e| matches!(e, J::SpawnReturned(_))).unwrap_or(journal.len());
    let sent_before_call = journal[..spawn_called].iter().filter(|e| matches!(e, J::SendDone(_))).count() as u32;
    let sent_before_return = journal[..spawn_returned].iter().filter(|e| matches!(e, J::SendDone(_))).count() as u32;
    let k = old.len() as u32;
    let expected_old: Vec<u32> = (1..=k).collect();
    let expected_new: Vec<u32> = (k + 1..=sent.len() as u32).collect();
    if old != expected_old || new != expected_new {
        ctx::report(
            "C09",
            "split_not_a_partition",
            key("split_not_a_partition"),
            format!("{} events were accepted; the oldies pipeline received {:?}, the newies pipeline {:?} (expected 1..=k and k+1..={} for one k)", sent.len(), old, new, sent.len()),
        );
    } else if k < sent_before_call || k > sent_before_return {
        ctx::report(
            "C09",
            "split_point_outside_the_subscription_call",
            key("split_point_outside_the_subscription_call"),
            format!("the oldies pipeline received {} events, but {} sends had completed when the spawn call started and {} when it returned", k, sent_before_call, sent_before_return),
        );
    }
    // ---------------- reach probes
    {
        let probe = |name: &'static str, hit: bool| {
            ctx::with_ctx(|c| *c.probes.entry(name).or_insert(0) += hit as u64);
        };
        let old_close = pos(&|e| matches!(e, J::CloseInvoked(OLD, _, _))).unwrap_or(journal.len());
        let close_called = pos(&|e| matches!(e, J::CloseCalled)).unwrap_or(journal.len());
        probe("harness.oldies.split_with_events_on_both_sides", !old.is_empty() && !new.is_empty());
        probe("harness.oldies.sequential.new_events_sent_while_old_ones_were_being_processed", p.sequential && journal[spawn_returned.min(old_close)..old_close].iter().any(|e| matches!(e, J::SendDone(_))));
        probe("harness.oldies.close_called_before_the_oldies_executor_finished", close_called < old_close);
        probe("harness.oldies.item_cancelled_by_the_futures_timeout", journal.iter().any(|e| matches!(e, J::Dropped(..))));
        probe("harness.oldies.no_old_events_at_all", old.is_empty());
    }
    // ---------------- C12: sequential transition
    if p.sequential {
        let first_new = pos(&|e| matches!(e, J::Pulled(NEW, _) | J::Start(NEW, _)));
        let last_old = last_pos(&|e| matches!(e, J::Pulled(OLD, _) | J::Start(OLD, _) | J::Finish(OLD, _) | J::Dropped(OLD, _)));
        if let (Some(n), Some(o)) = (first_new, last_old) {
            if n < o {
                ctx::report(
                    "C12",
                    "new_event_processed_before_old_ones_finished",
                    key("new_event_processed_before_old_ones_finished"),
                    format!("sequential transition: {:?} (journal position {}) happened before {:?} (position {})", journal[n], n, journal[o], o),
                );
            }
        }
        // every old event must have been fully processed before the first new one: also those never pulled at all
        if let Some(n) = first_new {
            let done_before: Vec<u32> = journal[..n].iter().filter_map(|e| if let J::Finish(OLD, id) | J::Dropped(OLD, id) = e { Some(*id) } else { None }).collect();
            let missing: Vec<u32> = (1..=sent_before_call).filter(|id| !done_before.contains(id)).collect();
            if !missing.is_empty() {
                ctx::report("C12", "new_event_processed_before_old_ones_finished", key("new_event_processed_before_old_ones_finished"), format!("sequential transition: the first new event entered its pipeline while old events {:?} (sent before the spawn call) had not been fully processed", missing));
            }
        }
    }
    // ---------------- C12: an individually removed executor
    let cancelled_newies = journal.iter().any(|e| matches!(e, J::CancelNewiesReturned(true)));
    if cancelled_newies {
        let close_called = pos(&|e| matches!(e, J::CloseCalled)).unwrap_or(journal.len());
        let new_closed = pos(&|e| matches!(e, J::CloseInvoked(NEW, _, _)));
        if new_closed.map(|c| c > close_called).unwrap_or(true) {
            ctx::report("C12", "removed_executor_not_closed", key("newies/removed_executor_not_closed"), format!("flush_and_cancel_executor(\"newies\") answered true, yet 50 virtual ms later the newies executor's close callback had not been invoked (it came {})", if new_closed.is_some() { "only when the whole Multi was closed" } else { "never" }));
        }
    }
    // ---------------- C12: close callbacks
    for (pipe, name) in [(OLD, "oldies"), (NEW, "newies")] {
        let invoked: Vec<usize> = journal.iter().enumerate().filter(|(_, e)| matches!(e, J::CloseInvoked(q, _, _) if *q == pipe)).map(|(i, _)| i).collect();
        let ran: Vec<usize> = journal.iter().enumerate().filter(|(_, e)| matches!(e, J::CloseRan(q, _) if *q == pipe)).map(|(i, _)| i).collect();
        if invoked.len() != 1 || ran.len() != 1 {
            ctx::report("C12", "close_callback_count", key(&format!("{}/close_callback_count", name)), format!("the {} executor's close callback was invoked {} times and ran {} times (by one hour after close())", name, invoked.len(), ran.len()));
            continue;
        }
        let last_item = last_pos(&|e| matches!(e, J::Pulled(q, _) | J::Start(q, _) | J::Finish(q, _) | J::Dropped(q, _) if *q == pipe));
        if let Some(li) = last_item {
            if invoked[0] < li {
                ctx::report("C12", "close_before_last_item", key(&format!("{}/close_before_last_item", name)), format!("the {} executor's close callback was invoked (journal position {}) before {:?} (position {})", name, invoked[0], journal[li], li));
            }
        }
        // `StreamEnded` is always fine; `ProgrammaticallyEnded` only for an executor that was scheduled to finish
        let expected_status = "StreamEnded";
        let programmatic_ok = pipe == NEW && cancelled_newies;
        if let J::CloseInvoked(_, status, finish_ok) = &journal[invoked[0]] {
            if !(status == expected_status || (programmatic_ok && status == "ProgrammaticallyEnded")) || !finish_ok {
                ctx::report("C12", "status_in_close_callback", key(&format!("{}/status_in_close_callback", name)), format!("the {} executor's close callback found state {} (expected {}), finish time not before start time: {}", name, status, expected_status, finish_ok));
            }
        }
        for e in journal.iter() {
            if let J::CloseLate(q, status) = e {
                if *q == pipe && !(status == expected_status || (programmatic_ok && status == "ProgrammaticallyEnded")) {
                    ctx::report("C12", "status_left_the_ended_state", key(&format!("{}/status_left_the_ended_state", name)), format!("3 ms (virtual) into its close callback the {} executor is in state {}", name, status));
                }
            }
        }
        if let J::CloseRan(_, status) = &journal[ran[0]] {
            if !(status == expected_status || (programmatic_ok && status == "ProgrammaticallyEnded")) {
                ctx::report("C12", "status_in_close_callback", key(&format!("{}/status_in_close_callback", name)), format!("the {} executor's close callback future found state {}", name, status));
            }
        }
    }
    // ---------------- C06: close() returned only after everything was processed
    let c06 = |oracle: &str| format!("oldies_exec/{}/{}/{}", p.exec.name(), mode, oracle);
    match pos(&|e| matches!(e, J::CloseReturned(..))) {
        None => ctx::report("C06", "close_never_returned", c06("close_never_returned"), "close(ZERO) did not return within one hour of virtual time".into()),
        Some(at) => {
            let done: Vec<u32> = journal[..at].iter().filter_map(|e| if let J::Finish(_, id) | J::Dropped(_, id) = e { Some(*id) } else { None }).collect();
            let accepted_before: Vec<u32> = journal[..pos(&|e| matches!(e, J::CloseCalled)).unwrap_or(0)].iter().filter_map(|e| if let J::SendDone(id) = e { Some(*id) } else { None }).collect();
            let unprocessed: Vec<u32> = accepted_before.iter().copied().filter(|id| !done.contains(id)).collect();
            if !unprocessed.is_empty() {
                ctx::report("C06", "close_before_processed", c06("close_before_processed"), format!("close(ZERO) returned while accepted events {:?} were not yet fully processed", unprocessed));
            }
            if let J::CloseReturned(_, running, open, _pending) = &journal[at] {
                if *running != 0 {
                    ctx::report("C06", "streams_running_after_close", c06("streams_running_after_close"), format!("running_streams_count() == {} right after close() returned", running));
                }
                if *open {
                    ctx::report("C06", "channel_open_after_close", c06("channel_open_after_close"), "is_channel_open() still answers true right after close() returned".into());
                }
            }
            let ever: Vec<u32> = journal.iter().filter_map(|e| if let J::Finish(_, id) | J::Dropped(_, id) = e { Some(*id) } else { None }).collect();
            let never: Vec<u32> = sent.iter().copied().filter(|id| !ever.contains(id)).collect();
            if !never.is_empty() {
                ctx::report("C06", "event_discarded", c06("event_discarded"), format!("accepted events {:?} were never processed, even long after close()", never));
            }
        }
    }
    // exactly once overall
    let mut all: Vec<u32> = old.iter().chain(new.iter()).copied().collect();
    all.sort_unstable();
    let before = all.len();
    all.dedup();
    if all.len() != before {
        ctx::report("C09", "event_in_both_streams", key("event_in_both_streams"), format!("oldies received {:?}, newies received {:?}", old, new));
    }
}

pub struct OldiesExec {
    pub property: &'static str,
}

impl Scenario for OldiesExec {
    type P = OldiesParams;
    fn property(&self) -> &'static str {
        self.property
    }
    fn name(&self) -> &'static str {
        "oldies_exec"
    }
    fn engine(&self) -> &'static str {
        "D"
    }
    fn generate(&self, rng: &mut Rng, tier: Tier) -> OldiesParams {
        let exec = *rng.pick(&EXEC_KINDS);
        let timeout_ms = if exec.is_future() && rng.chance(1, 4) { 30 } else { 0 };
        let max_events = if tier == Tier::Thorough { 14 } else { 10 };
        let n = rng.below(max_events + 1) as usize;
        let events: Vec<LogEvent> = (0..n)
            .map(|_| LogEvent {
                gap_ms: *rng.pick(&[0, 0, 0, u32::MAX, 1, 3, 12]),
                delay_ms: if !exec.is_future() {
                    0
                } else if timeout_ms > 0 && rng.chance(1, 6) {
                    timeout_ms + 1 + rng.below(20) as u32
                } else {
                    rng.below(if timeout_ms > 0 { timeout_ms as u64 / 4 } else { 20 }) as u32
                },
                fails: exec.is_fallible() && rng.chance(1, 6),
            })
            .collect();
        let total_gap: u32 = events.iter().map(|e| if e.gap_ms == u32::MAX { 0 } else { e.gap_ms }).sum();
        OldiesParams {
            sched: SchedSpec::draw(rng),
            exec,
            instruments: if rng.chance(1, 2) { 0 } else { 3 },
            limit: 1 + rng.below(4) as u32,
            sequential: rng.chance(2, 3),
            timeout_ms,
            events,
            spawn_at_ms: if rng.chance(1, 4) { u32::MAX } else { rng.below(total_gap as u64 + 3) as u32 },
            close_gap_ms: *rng.pick(&[0, 0, u32::MAX, 1, 5, 40]),
            oldies_slowness: 1 + rng.below(3) as u32,
            cancel_newies: rng.chance(1, 4),
        }
    }
    fn sched<'a>(&self, p: &'a OldiesParams) -> &'a SchedSpec {
        &p.sched
    }
    fn with_sched(&self, p: &OldiesParams, s: SchedSpec) -> OldiesParams {
        let mut q = p.clone();
        q.sched = s;
        q
    }
    fn execute(&self, p: &OldiesParams, trace: bool) -> RunOut {
        let p2 = p.clone();
        let name = chan::scratch_log_name("oldies");
        let name2 = name.clone();
        let (out, _) = run_passive(&p.sched, trace, move || {
            let journal = match p2.instruments {
                0 => oldies_run::<I_NONE>(&p2, &name2),
                _ => oldies_run::<I_BOTH>(&p2, &name2),
            };
            judge(&p2, &journal);
        });
        let _ = std::fs::remove_file(chan::mmap_log_path(&name));
        out
    }
    fn shrink(&self, p: &OldiesParams) -> Vec<OldiesParams> {
        let mut out = vec![];
        for i in (0..p.events.len()).rev() {
            let mut q = p.clone();
            q.events.remove(i);
            out.push(q);
        }
        for i in 0..p.events.len() {
            let e = p.events[i];
            if e.gap_ms != 0 {
                let mut q = p.clone();
                q.events[i].gap_ms = 0;
                out.push(q);
            }
            if e.fails {
                let mut q = p.clone();
                q.events[i].fails = false;
                out.push(q);
            }
            if e.delay_ms > 1 && (p.timeout_ms == 0 || e.delay_ms < p.timeout_ms) {
                let mut q = p.clone();
                q.events[i].delay_ms = 1;
                out.push(q);
            }
        }
        if p.close_gap_ms != 0 {
            let mut q = p.clone();
            q.close_gap_ms = 0;
            out.push(q);
        }
        if p.limit > 1 {
            let mut q = p.clone();
            q.limit = 1;
            out.push(q);
        }
        if p.oldies_slowness > 1 {
            let mut q = p.clone();
            q.oldies_slowness = 1;
            out.push(q);
        }
        if p.instruments != 0 {
            let mut q = p.clone();
            q.instruments = 0;
            out.push(q);
        }
        if p.cancel_newies {
            let mut q = p.clone();
            q.cancel_newies = false;
            out.push(q);
        }
        if p.timeout_ms > 0 && p.events.iter().all(|e| e.delay_ms < p.timeout_ms) {
            let mut q = p.clone();
            q.timeout_ms = 0;
            out.push(q);
        }
        out
    }
    fn size(&self, p: &OldiesParams) -> u64 {
        p.events.len() as u64 * 3 + p.limit as u64 + p.oldies_slowness as u64
    }
    fn nontrivial(&self, p: &OldiesParams, _out: &RunOut) -> bool {
        p.events.len() >= 2
    }
    fn distinct_key(&self, p: &OldiesParams, _out: &RunOut) -> u64 {
        let mut q = p.clone();
        q.sched = SchedSpec { policy: crate::ctx::Policy::Uniform, seed: 0, script: vec![], weak_cas: 0, stall: 0, starvation: 0, step_cap: 0, op_step_bound: 0, origin: 0, metric_origin: 0 };
        let mut h = 0xcbf29ce484222325u64;
        for b in serde_json::to_string(&q).unwrap_or_default().bytes() {
            h = (h ^ b as u64).wrapping_mul(0x100000001b3);
        }
        h
    }
    fn key_context(&self, p: &OldiesParams) -> String {
        format!("{}/{}/", p.exec.name(), if p.sequential { "sequential" } else { "parallel" })
    }
    fn components(&self) -> serde_json::Value {
        serde_json::json!({"real": ["reactive-mutiny Multi::spawn_*oldies_executor / StreamExecutor / MmapLog channel (/repo working tree)", "tokio current-thread runtime with paused (virtual) clock", "futures", "the log channel's real file + mmap under /tmp"], "stub": []})
    }
    fn assumptions(&self) -> Vec<String> {
        vec![
            "single current-thread tokio runtime under virtual time (all interleavings at await points); multi-threaded runtimes are not simulated".into(),
            "an item cancelled by the futures timeout counts as fully processed".into(),
        ]
    }
}
