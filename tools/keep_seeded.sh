#!/bin/bash
# keep_seeded.sh <Cxx> <n> "<needs>" "<caught-by summary>" : stores a confirmed seeded change under /verif/seeded/<Cxx>-<n>/
P="$1"; N="$2"; NEEDS="$3"; CAUGHT="$4"
D=/verif/seeded/$P-$N; mkdir -p $D
cp /tmp/mut/$P/_out/patch$N.diff $D/patch.diff
cp /tmp/mut/$P/_out/demo$N.rs $D/demo.rs
python3 - "$P" "$N" "$NEEDS" "$CAUGHT" <<'PY'
import json,sys,re
p,n,needs,caught=sys.argv[1:5]
notes=open(f'/tmp/mut/{p}/_out/notes.md').read()
meta={"property":p,"seeded_change":f"{p}-{n}","breaks":p,"needs_to_manifest":needs,
 "confirmed":{"how":"tools/confirm_mut.sh in the scratch worktree: `cargo test --offline --no-fail-fast` with the change (only the 2 baseline failures, modulo the timing-flaky multi::tests::undegradable_latencies), demo test fails with the change and passes without it",
              "log":open('/tmp/mut/confirm1.log').read()+open('/tmp/mut/confirm2.log').read() if False else None},
 "checks_run":caught,
 "author_notes_excerpt":notes[:3000]}
json.dump(meta,open(f'/verif/seeded/{p}-{n}/meta.json','w'),indent=1)
PY
echo kept $D
