#!/bin/bash
# tools/confirm_mut3.sh <agent-dir> <Cxx> : confirms a seeded change produced by a sub-agent, in that agent's scratch worktree:
# (a) the demonstration passes on the unchanged tree, (b) fails with the change, (c) the existing suite with the change shows
# only the two baseline failures (timing-flaky tests re-run alone). Writes <agent-dir>/_out/<Cxx>.confirm.json
W="$1"; P="$2"; O=$W/_out
cd "$W" || exit 2
export CARGO_TARGET_DIR=$W/target CARGO_NET_OFFLINE=true
git checkout -q -- src; rm -f tests/verif_demo_*.rs
cp "$O/$P.demo.rs" tests/verif_demo_$P.rs
cargo test --offline -j 8 --test verif_demo_$P > "$O/$P.confirm.demo_without.log" 2>&1; DEMO_WITHOUT=$?
git apply "$O/$P.patch.diff" || { echo "patch does not apply"; exit 2; }
cargo test --offline -j 8 --test verif_demo_$P > "$O/$P.confirm.demo_with.log" 2>&1; DEMO_WITH=$?
rm -f tests/verif_demo_$P.rs
cargo test --offline -j 8 --workspace --no-fail-fast > "$O/$P.confirm.suite_with.log" 2>&1
FAILED=$(grep -E "^test .* \.\.\. FAILED" "$O/$P.confirm.suite_with.log" | sed 's/ \.\.\. FAILED//; s/^test //' | sort -u | tr '\n' ';')
for t in multi::tests::undegradable_latencies multi::tests::async_elements; do
  case "$FAILED" in *"$t"*)
    if cargo test --offline -j 8 --lib "$t" > "$O/$P.confirm.rerun.log" 2>&1; then FAILED=$(echo "$FAILED" | sed "s/$t;//"); fi ;;
  esac
done
PASSED=$(grep -E "^test result" "$O/$P.confirm.suite_with.log" | sed -E 's/.* ([0-9]+) passed.*/\1/' | paste -sd+ | bc)
git checkout -q -- src
printf '{"property":"%s","demo_without_patch_exit":%s,"demo_with_patch_exit":%s,"suite_failures_with_patch":"%s","suite_passed_with_patch":%s}\n' "$P" "$DEMO_WITHOUT" "$DEMO_WITH" "$FAILED" "${PASSED:-0}" > "$O/$P.confirm.json"
cat "$O/$P.confirm.json"
