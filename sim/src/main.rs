fn main(){ println!("hi"); }
