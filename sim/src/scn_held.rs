//! Scenario family `held_conc` (C05, engine T): destructor-bearing payloads travel through the channels while the
//! consumers behave like owners -- they keep the handles they are yielded, clone them, convert unique handles into
//! shared ones, bulk-copy them, hand them over to another thread that drops them there, and release them while
//! producers are allocating from the same (exhausted) pool. Every step is checked against the per-run ledger:
//!   * a payload is never destroyed while a handle to it is alive, never twice, never a thing that was not created;
//!   * reading through a live handle returns what was sent (not overwritten while held);
//!   * the storage behind a live handle is not handed to another event;
//!   * a payload is destroyed exactly once as soon as it was delivered to everybody entitled and every handle released
//!     -- judged when the last handle goes (if the accepting send has returned) and again at quiescence, before the
//!     channel is torn down;
//!   * once everything is consumed and released the channel accepts exactly BUFFER_SIZE events again.
//! The bodies are `scn_uni::uni_body` / `scn_multi::multi_body` run in "ownership mode" (`Ledger::own`).

use crate::chan::{self, HandleDyn, Kind};
use crate::ctx::{self, harness_point, SchedSpec};
use crate::engine_t::Body;
use crate::framework::{Scenario, Tier};
use crate::payload::OwnCfg;
use crate::rng::Rng;
use crate::scn_multi::{self, MultiParams};
use crate::scn_own::{ledger_begin, ledger_end, ledger_state};
use crate::scn_uni::{self, Entry, EvKind, UniParams};
use serde::{Deserialize, Serialize};
use std::cell::{Cell, RefCell};
use std::sync::Arc;

// =============================================================================================================
// ownership-mode helpers used by the stream drivers
// =============================================================================================================

pub fn own_cfg() -> Option<OwnCfg> {
    ctx::with_ctx(|c| c.ledger.own).flatten()
}

fn family() -> &'static str {
    ctx::with_ctx(|c| c.ledger.held_family).unwrap_or("held_conc")
}

fn key(oracle: &str) -> String {
    format!("{}/{}", family(), oracle)
}

fn addr_inc(addr: usize, id: u32) {
    if addr == 0 {
        return;
    }
    let clash = ctx::with_ctx(|c| {
        let e = c.ledger.addr_live.entry(addr).or_insert((id, 0));
        if e.1 > 0 && e.0 != id {
            let other = e.0;
            Some(other)
        } else {
            e.0 = id;
            e.1 += 1;
            None
        }
    })
    .flatten();
    if let Some(other) = clash {
        ctx::report("C05", "storage_reused_while_held", key("storage_reused_while_held"), format!("event {:#x} was yielded in the storage at {:#x}, which a live handle to event {:#x} still refers to", id, addr, other));
    }
}

fn addr_dec(addr: usize, id: u32) {
    if addr == 0 {
        return;
    }
    ctx::with_ctx(|c| {
        if let Some(e) = c.ledger.addr_live.get_mut(&addr) {
            if e.0 == id && e.1 > 0 {
                e.1 -= 1;
            }
        }
    });
}

/// a stream / listener yielded `h` for event `id`
pub fn own_on_yield(id: u32, h: &dyn HandleDyn) {
    ctx::with_ctx(|c| {
        *c.ledger.live.entry(id).or_insert(0) += 1;
        c.ledger.in_flight.entry(id).or_insert(0);
        *c.ledger.delivered.entry(id).or_insert(0) += 1;
    });
    let (_, _, _, destroyed) = ledger_state(id);
    if destroyed > 0 {
        ctx::report("C05", "yielded_after_destruction", key("yielded_after_destruction"), format!("event {:#x} was yielded although its payload had already been destroyed", id));
    }
    addr_inc(h.addr(), id);
}

fn check_content(id: u32, h: &dyn HandleDyn, when: &str) {
    if h.id() != id || !h.intact() {
        ctx::report("C05", "overwritten_while_held", key("overwritten_while_held"), format!("a live handle to event {:#x} reads back id {:#x} (intact={}) {}: the payload was overwritten or destroyed while held", id, h.id(), h.intact(), when));
    }
}

/// releases one handle the way every site of the ownership mode must: content check, table first, then the real
/// drop, then the "destroyed exactly when the last handle goes" verdict
pub fn own_release(id: u32, h: Box<dyn HandleDyn>) {
    check_content(id, &*h, "when it is released");
    addr_dec(h.addr(), id);
    ledger_begin(id, -1);
    ctx::op_mark("handle.drop");
    drop(h);
    ctx::op_mark("");
    ledger_end(id, 0);
    if ctx::aborted() {
        ctx::abort_run("verdict".into());
    }
    let (live, in_flight, _, destroyed) = ledger_state(id);
    let (delivered, expected, sent_done) = ctx::with_ctx(|c| (c.ledger.delivered.get(&id).copied().unwrap_or(0), c.ledger.expected_deliveries, c.ledger.sent_done.contains(&id))).unwrap_or((0, 1, false));
    if live == 0 && in_flight == 0 && sent_done && delivered >= expected {
        ctx::with_ctx(|c| *c.probes.entry("harness.held.last_release_judged").or_insert(0) += 1);
        if destroyed != 1 {
            ctx::report("C05", "not_destroyed_at_last_release", key("not_destroyed_at_last_release"), format!("event {:#x} was delivered to all {} entitled stream(s), its send has returned and the last handle was just released: its destructor has run {} times", id, expected, destroyed));
        }
    }
}

thread_local! {
    static INBOX: RefCell<Vec<(u32, Box<dyn HandleDyn>)>> = const { RefCell::new(Vec::new()) };
    static RELEASER: RefCell<Option<shuttle::thread::Thread>> = const { RefCell::new(None) };
    static RELEASER_BUSY: Cell<bool> = const { Cell::new(false) };
    static RELEASER_STOP: Cell<bool> = const { Cell::new(false) };
}

/// to be called at the start of every run (whatever an aborted run left behind is leaked, never dropped)
pub fn reset() {
    INBOX.with(|i| {
        for x in i.borrow_mut().drain(..) {
            std::mem::forget(x);
        }
    });
    RELEASER.with(|r| *r.borrow_mut() = None);
    RELEASER_BUSY.with(|b| b.set(false));
    RELEASER_STOP.with(|b| b.set(false));
}

fn give(id: u32, h: Box<dyn HandleDyn>) {
    INBOX.with(|i| i.borrow_mut().push((id, h)));
    if let Some(t) = RELEASER.with(|r| r.borrow().clone()) {
        t.unpark();
    }
}

pub fn releaser_idle() -> bool {
    INBOX.with(|i| i.borrow().is_empty()) && !RELEASER_BUSY.with(|b| b.get())
}

pub fn stop_releaser() {
    RELEASER_STOP.with(|b| b.set(true));
    if let Some(t) = RELEASER.with(|r| r.borrow().clone()) {
        t.unpark();
    }
}

/// the thread handles are handed over to: drops them (concurrently with whatever the consumers and producers do)
pub fn releaser_thread() {
    RELEASER.with(|r| *r.borrow_mut() = Some(shuttle::thread::current()));
    loop {
        if ctx::aborted() {
            return;
        }
        let next = INBOX.with(|i| {
            let mut i = i.borrow_mut();
            if i.is_empty() {
                None
            } else {
                RELEASER_BUSY.with(|b| b.set(true));
                Some(i.remove(0))
            }
        });
        match next {
            Some((id, h)) => {
                harness_point();
                check_content(id, &*h, "on the thread it was handed over to");
                harness_point();
                own_release(id, h);
                RELEASER_BUSY.with(|b| b.set(false));
            }
            None => {
                if RELEASER_STOP.with(|b| b.get()) {
                    return;
                }
                shuttle::thread::park();
            }
        }
    }
}

/// what an owner may do with the handles it holds, right after a new one was yielded (`held`: (event id, handle))
pub fn own_extras(cfg: &OwnCfg, held: &mut Vec<(u32, Box<dyn HandleDyn>)>) {
    if held.is_empty() {
        return;
    }
    // unique -> shared
    if cfg.share > 0 && held.last().map(|(_, h)| h.is_unique()).unwrap_or(false) && ctx::draw_below(1024) < cfg.share as u64 {
        let (id, h) = held.pop().unwrap();
        let addr = h.addr();
        ledger_begin(id, 0);
        ctx::op_mark("handle.into_ogre_arc");
        let shared = h.into_shared();
        ctx::op_mark("");
        ledger_end(id, 0);
        let (_, _, _, destroyed) = ledger_state(id);
        if destroyed != 0 || shared.id() != id || !shared.intact() || shared.addr() != addr || shared.refcount() != Some(1) {
            ctx::report("C05", "conversion", key("conversion"), format!("converting the unique handle to event {:#x} into a shared one: destructor ran {} times, reads id {:#x} (intact={}), address {:#x} -> {:#x}, references_count {:?}", id, destroyed, shared.id(), shared.intact(), addr, shared.addr(), shared.refcount()));
        }
        ctx::fault_fired("owner.unique_into_shared");
        held.push((id, shared));
    }
    // clone
    if cfg.clone > 0 && ctx::draw_below(1024) < cfg.clone as u64 {
        let i = ctx::draw_below(held.len() as u64) as usize;
        if !held[i].1.is_unique() && held[i].1.refcount().is_some() {
            let id = held[i].0;
            ledger_begin(id, 0);
            ctx::op_mark("handle.clone");
            let c = held[i].1.try_clone();
            ctx::op_mark("");
            ledger_end(id, if c.is_some() { 1 } else { 0 });
            if let Some(c) = c {
                if c.addr() != held[i].1.addr() {
                    ctx::report("C05", "clone_elsewhere", key("clone_elsewhere"), format!("a clone of a handle to event {:#x} refers to different storage", id));
                }
                check_content(id, &*c, "through a fresh clone");
                addr_inc(c.addr(), id);
                ctx::fault_fired("owner.clone");
                held.push((id, c));
            }
        }
    }
    // bulk copies (OgreArc)
    if cfg.bulk > 0 && ctx::draw_below(1024) < cfg.bulk as u64 {
        let i = ctx::draw_below(held.len() as u64) as usize;
        if !held[i].1.is_unique() && held[i].1.refcount().is_some() {
            let id = held[i].0;
            let n = 1 + ctx::draw_below(2) as u32;
            ledger_begin(id, 0);
            ctx::op_mark("handle.bulk_copy");
            let copies = held[i].1.bulk_copies(n);
            ctx::op_mark("");
            ledger_end(id, copies.len() as i32);
            for c in copies {
                addr_inc(c.addr(), id);
                ctx::fault_fired("owner.bulk_copy");
                held.push((id, c));
            }
        }
    }
    // hand one over to the releaser thread
    if cfg.give > 0 && ctx::draw_below(1024) < cfg.give as u64 {
        let i = ctx::draw_below(held.len() as u64) as usize;
        let (id, h) = held.remove(i);
        ctx::fault_fired("owner.handed_to_another_thread");
        give(id, h);
    }
}

/// a live handle is read at a random instant
pub fn own_touch(held: &[(u32, Box<dyn HandleDyn>)]) {
    if held.is_empty() {
        return;
    }
    let i = ctx::draw_below(held.len() as u64) as usize;
    check_content(held[i].0, &*held[i].1, "while held");
}

/// ids (of the given set) whose payload has not been destroyed exactly once
pub fn not_destroyed_once(ids: &[u32]) -> Vec<(u32, u32, u32)> {
    ctx::with_ctx(|c| ids.iter().filter_map(|id| c.ledger.ids.get(id).map(|(cr, de)| (*id, *cr, *de))).filter(|(_, cr, de)| cr != de).collect()).unwrap_or_default()
}

// =============================================================================================================
// the scenario
// =============================================================================================================

#[derive(Clone, Debug, Serialize, Deserialize)]
pub struct HeldParams {
    pub own: OwnCfg,
    pub uni: Option<UniParams>,
    pub multi: Option<MultiParams>,
}

pub struct HeldConc;

const HELD_UNI_KINDS: [Kind; 8] = [Kind::UniZcAtomic, Kind::UniZcFullSync, Kind::UniZcAtomic, Kind::UniZcFullSync, Kind::UniZcAtomic, Kind::UniMoveAtomic, Kind::UniMoveFullSync, Kind::UniMoveCrossbeam];
const HELD_MULTI_KINDS: [Kind; 7] = [Kind::MultiOgreAtomic, Kind::MultiOgreFullSync, Kind::MultiOgreAtomic, Kind::MultiOgreFullSync, Kind::MultiArcAtomic, Kind::MultiArcFullSync, Kind::MultiArcCrossbeam];

fn held_body(p: &HeldParams) {
    reset();
    if let Some(up) = &p.uni {
        let fam: &'static str = ctx::intern(format!("held_conc/{}", up.kind.name()));
        ctx::with_ctx(|c| {
            c.ledger.own = Some(p.own);
            c.ledger.held_property = "C05";
            c.ledger.held_family = fam;
            c.ledger.expected_deliveries = 1;
        });
        let data = scn_uni::uni_body_ex(up, true, true);
        if ctx::aborted() {
            return;
        }
        let own = data.own.expect("ownership mode returns its findings");
        if !own.undestroyed_after_release.is_empty() {
            ctx::report("C05", "not_destroyed_after_release", key("not_destroyed_after_release"), format!("at quiescence -- everything consumed, every handle released, the channel still alive -- (event, created, destroyed) = {:x?}", own.undestroyed_after_release));
        }
        if let Some((accepted, one_more)) = own.capacity_after {
            if accepted as usize != up.buffer || one_more {
                ctx::report("C05", "capacity_after_release", key("capacity_after_release"), format!("after everything was consumed and every handle released, {} of {} sends were accepted (and a further one: {})", accepted, up.buffer, one_more));
            }
        }
        if !own.undestroyed_at_end.is_empty() {
            ctx::report("C05", "never_destroyed", key("never_destroyed"), format!("after the final drain (nothing buffered, nothing held): (event, created, destroyed) = {:x?}", own.undestroyed_at_end));
        }
    } else if let Some(mp) = &p.multi {
        let fam: &'static str = ctx::intern(format!("held_conc/{}", mp.kind.name()));
        ctx::with_ctx(|c| {
            c.ledger.own = Some(p.own);
            c.ledger.held_property = "C05";
            c.ledger.held_family = fam;
            c.ledger.expected_deliveries = mp.listeners as u32;
        });
        let data = scn_multi::multi_body(mp, true, true);
        if ctx::aborted() {
            return;
        }
        if let Some(own) = data.own.as_ref() {
            if !own.undestroyed_after_release.is_empty() {
                ctx::report("C05", "not_destroyed_after_release", key("not_destroyed_after_release"), format!("at quiescence -- every listener consumed everything, every handle released, the channel still alive -- (event, created, destroyed) = {:x?}", own.undestroyed_after_release));
            }
        }
        if let Some((accepted, one_more, after_reuse)) = data.capacity_after {
            if accepted as usize != mp.buffer || one_more {
                ctx::report("C05", "capacity_after_release", key("capacity_after_release"), format!("after everything was consumed and every handle released, {} of {} sends were accepted with a fresh listener (and a further one: {}; after every stream id was handed out again: {:?})", accepted, mp.buffer, one_more, after_reuse));
            }
        }
        // a delivered payload seen at two addresses by the same event's handles would be a copy, not the shared allocation: C03's subject
        let _ = data.events.iter().filter(|e| e.kind == EvKind::Poll).count();
    }
}

impl Scenario for HeldConc {
    type P = HeldParams;
    fn property(&self) -> &'static str {
        "C05"
    }
    fn name(&self) -> &'static str {
        "held_conc"
    }
    fn engine(&self) -> &'static str {
        "T"
    }
    fn generate(&self, rng: &mut Rng, tier: Tier) -> HeldParams {
        let own = OwnCfg { clone: *rng.pick(&[0, 200, 500]), share: *rng.pick(&[0, 300, 700]), give: *rng.pick(&[0, 200, 500]), bulk: *rng.pick(&[0, 0, 200]) };
        if rng.chance(1, 2) {
            let mut p = scn_uni::draw_uni_params(rng, tier, &HELD_UNI_KINDS, &[1, 2], true);
            // small pools, owners that keep handles: the pool runs dry while handles are being released
            p.buffer = *rng.pick(&[2usize, 2, 4, 8]);
            p.prefill = p.prefill.min(p.buffer as u32);
            p.hold = if p.kind.is_zero_copy() { rng.below(p.buffer as u64 + 1) as u32 } else { 0 };
            if p.kind == Kind::UniMoveCrossbeam {
                // the crossbeam channel's setter-based sends wait (by design) for room: plain sends only
                for ops in p.producers.iter_mut() {
                    for o in ops.iter_mut() {
                        *o = Entry::Send;
                    }
                }
            }
            HeldParams { own, uni: Some(p), multi: None }
        } else {
            let mut p = scn_multi::draw_multi_params(rng, tier, &HELD_MULTI_KINDS, &chan::STREAMS, 3);
            p.hold = rng.below(p.buffer as u64) as u32;
            HeldParams { own, uni: None, multi: Some(p) }
        }
    }
    fn sched<'a>(&self, p: &'a HeldParams) -> &'a SchedSpec {
        match (&p.uni, &p.multi) {
            (Some(u), _) => &u.sched,
            (_, Some(m)) => &m.sched,
            _ => unreachable!(),
        }
    }
    fn with_sched(&self, p: &HeldParams, s: SchedSpec) -> HeldParams {
        let mut q = p.clone();
        if let Some(u) = q.uni.as_mut() {
            u.sched = s;
        } else if let Some(m) = q.multi.as_mut() {
            m.sched = s;
        }
        q
    }
    fn body(&self, p: &HeldParams) -> Option<Body> {
        let p2 = p.clone();
        Some(Arc::new(move || held_body(&p2)))
    }
    fn key_context(&self, p: &HeldParams) -> String {
        match (&p.uni, &p.multi) {
            (Some(u), _) => format!("{}/", u.kind.name()),
            (_, Some(m)) => format!("{}/", m.kind.name()),
            _ => String::new(),
        }
    }
    fn shrink(&self, p: &HeldParams) -> Vec<HeldParams> {
        let mut out = vec![];
        if let Some(u) = &p.uni {
            for q in scn_uni::shrink_uni(u) {
                out.push(HeldParams { own: p.own, uni: Some(q), multi: None });
            }
        }
        if let Some(m) = &p.multi {
            for q in scn_multi::shrink_multi(m) {
                out.push(HeldParams { own: p.own, uni: None, multi: Some(q) });
            }
        }
        for f in 0..4 {
            let mut q = p.clone();
            let field = match f {
                0 => &mut q.own.clone,
                1 => &mut q.own.share,
                2 => &mut q.own.give,
                _ => &mut q.own.bulk,
            };
            if *field > 0 {
                *field = 0;
                out.push(q);
            }
        }
        out
    }
    fn size(&self, p: &HeldParams) -> u64 {
        let base = match (&p.uni, &p.multi) {
            (Some(u), _) => scn_uni::size_uni(u),
            (_, Some(m)) => scn_multi::size_multi(m),
            _ => 0,
        };
        base + [p.own.clone, p.own.share, p.own.give, p.own.bulk].iter().filter(|x| **x > 0).count() as u64 * 2
    }
    fn components(&self) -> serde_json::Value {
        serde_json::json!({"real": ["reactive-mutiny Uni / Multi channels, ring buffers, pool allocators, OgreUnique / OgreArc, streams manager (/repo working tree, feature verif)", "crossbeam-channel", "std::sync::Arc (runs atomically: no scheduling point inside)"], "stub": []})
    }
    fn assumptions(&self) -> Vec<String> {
        vec![
            "sequential consistency at the instrumented atomics; plain shared accesses interleave at the instrumented yield points, whole accesses only".into(),
            "payload handles never outlive their channel and setters initialise the slot without reading it (the property's own assumptions)".into(),
            "the 'destroyed as soon as the last handle is released' verdict is taken at a release only when the accepting send has returned and every entitled stream has yielded the event (the sender holds a reference of its own until then), and unconditionally at quiescence".into(),
            "std::sync::Arc (Arc Multi kinds) is not instrumented: its reference counting runs atomically".into(),
        ]
    }
}

// =============================================================================================================
// C08 (engine-T part): the reservation API under concurrency; C16 (engine-T part): rejected sends under concurrency
// =============================================================================================================

/// conservation over the recorded history, reported under `property`: what was accepted (sent reserved slots included)
/// is yielded exactly once with the content written; what was rejected / cancelled is never yielded
fn judge_conservation(property: &str, family: &str, kind: Kind, events: &[scn_uni::Ev], uni: bool, n_listeners: usize) {
    use std::collections::BTreeMap;
    let key = |oracle: &str| format!("{}/{}/{}", family, kind.name(), oracle);
    let mut accepted: BTreeMap<u32, scn_uni::Entry> = BTreeMap::new();
    let mut rejected: BTreeMap<u32, (scn_uni::Entry, bool, bool)> = BTreeMap::new();
    for e in events {
        if let EvKind::SendOp(entry) = e.kind {
            if e.accepted {
                accepted.insert(e.id, entry);
            } else {
                rejected.insert(e.id, (entry, e.intact, e.setter_invoked_on_reject));
            }
        }
    }
    let mut yielded: BTreeMap<u32, u32> = BTreeMap::new();
    for e in events.iter().filter(|e| e.kind == EvKind::Poll && e.accepted) {
        *yielded.entry(e.id).or_insert(0) += 1;
        if !e.intact {
            ctx::report(property, "payload_corrupted", key("payload_corrupted"), format!("event {:#x} was yielded with a payload that is not what was written", e.id));
        }
        if let Some((entry, _, _)) = rejected.get(&e.id) {
            let oracle = if *entry == scn_uni::Entry::Reserve { "cancelled_or_refused_slot_delivered" } else { "rejected_delivered" };
            ctx::report(property, oracle, key(oracle), format!("event {:#x} was {} but a stream yielded it", e.id, if *entry == scn_uni::Entry::Reserve { "cancelled (or its reservation refused)" } else { "rejected as buffer-full" }));
        } else if !accepted.contains_key(&e.id) {
            ctx::report(property, "invented", key("invented"), format!("a stream yielded {:#x}, which was never sent", e.id));
        }
    }
    let expected = if uni { 1 } else { n_listeners as u32 };
    for (id, entry) in accepted.iter() {
        let n = yielded.get(id).copied().unwrap_or(0);
        if n > expected {
            ctx::report(property, "duplicate", key("duplicate"), format!("event {:#x} ({}) was yielded {} times", id, entry.name(), n));
        } else if n < expected {
            ctx::report(property, "lost", key("lost"), format!("event {:#x} ({}) was accepted but yielded {} time(s) instead of {}, even after every stream was woken until nothing more came out", id, entry.name(), n, expected));
        }
    }
    for (id, (_, intact, invoked)) in rejected.iter() {
        if !intact || *invoked {
            ctx::report(property, "rejected_input_touched", key("rejected_input_touched"), format!("the input of rejected send {:#x} was not handed back unchanged and un-invoked", id));
        }
    }
}

fn conc_body(p: &HeldParams, property: &'static str, family: &'static str) {
    reset();
    let zero = OwnCfg { clone: 0, share: 0, give: 0, bulk: 0 };
    if let Some(up) = &p.uni {
        let fam: &'static str = ctx::intern(format!("{}/{}", family, up.kind.name()));
        ctx::with_ctx(|c| {
            c.ledger.own = Some(zero);
            c.ledger.held_property = "C05";
            c.ledger.held_family = fam;
            c.ledger.expected_deliveries = 1;
        });
        let data = scn_uni::uni_body_ex(up, true, true);
        if ctx::aborted() {
            return;
        }
        judge_conservation(property, family, up.kind, &data.events, true, 1);
        if let Some((accepted, one_more)) = data.own.as_ref().and_then(|o| o.capacity_after) {
            if accepted as usize != up.buffer || one_more {
                ctx::report(property, "capacity_after", format!("{}/{}/capacity_after", family, up.kind.name()), format!("after every reservation was sent or cancelled, every rejected send had returned and everything was consumed and released, {} of {} sends were accepted (and a further one: {})", accepted, up.buffer, one_more));
            }
        }
    } else if let Some(mp) = &p.multi {
        let fam: &'static str = ctx::intern(format!("{}/{}", family, mp.kind.name()));
        ctx::with_ctx(|c| {
            c.ledger.own = Some(zero);
            c.ledger.held_property = "C05";
            c.ledger.held_family = fam;
            c.ledger.expected_deliveries = mp.listeners as u32;
        });
        let data = scn_multi::multi_body(mp, true, true);
        if ctx::aborted() {
            return;
        }
        judge_conservation(property, family, mp.kind, &data.events, false, mp.listeners);
        if let Some((accepted, one_more, after_reuse)) = data.capacity_after {
            if accepted as usize != mp.buffer || one_more {
                ctx::report(property, "capacity_after", format!("{}/{}/capacity_after", family, mp.kind.name()), format!("after every rejected send had returned and everything was consumed and released, {} of {} sends were accepted with a fresh listener (and a further one: {}; after every stream id was handed out again: {:?})", accepted, mp.buffer, one_more, after_reuse));
            }
        }
    }
}

macro_rules! conc_scenario_common {
    () => {
        type P = HeldParams;
        fn engine(&self) -> &'static str {
            "T"
        }
        fn sched<'a>(&self, p: &'a HeldParams) -> &'a SchedSpec {
            HeldConc.sched(p)
        }
        fn key_context(&self, p: &HeldParams) -> String {
            HeldConc.key_context(p)
        }
        fn shrink(&self, p: &HeldParams) -> Vec<HeldParams> {
            HeldConc.shrink(p)
        }
        fn size(&self, p: &HeldParams) -> u64 {
            HeldConc.size(p)
        }
        fn components(&self) -> serde_json::Value {
            HeldConc.components()
        }
    };
}

pub struct ReserveConc;

const RESERVE_UNI_KINDS: [Kind; 5] = [Kind::UniZcAtomic, Kind::UniZcFullSync, Kind::UniMoveAtomic, Kind::UniZcAtomic, Kind::UniZcFullSync];

impl Scenario for ReserveConc {
    conc_scenario_common!();
    fn property(&self) -> &'static str {
        "C08"
    }
    fn name(&self) -> &'static str {
        "reserve_conc"
    }
    fn generate(&self, rng: &mut Rng, tier: Tier) -> HeldParams {
        let mut p = scn_uni::draw_uni_params(rng, tier, &RESERVE_UNI_KINDS, &[1, 2], true);
        p.buffer = *rng.pick(&[2usize, 4, 4, 8]);
        p.prefill = p.prefill.min(p.buffer as u32 / 2);
        p.hold = if p.kind.is_zero_copy() { rng.below(2) as u32 } else { 0 };
        let n_res = 1 + rng.below(3) as usize;
        // the movable ring documents: cancel in reverse reservation order, and no plain send by a thread that holds a
        // reservation. With several threads reserving, "reverse order" is not under any one thread's control: cancels
        // only when a single thread uses the ring at all
        let movable = p.kind == Kind::UniMoveAtomic;
        let single = movable && rng.chance(1, 2);
        let n_res = if single { 1 } else { n_res };
        if single {
            p.producers.clear();
        } else if rng.chance(1, 2) {
            p.producers.truncate(1);
        } else {
            p.producers.clear();
        }
        let max_ops = if tier == Tier::Thorough { 9 } else { 7 };
        p.reservers = (0..n_res)
            .map(|_| {
                let n = 2 + rng.below(max_ops) as usize;
                (0..n)
                    .map(|_| match rng.below(10) {
                        0..=3 => scn_uni::ROp::Reserve,
                        4 | 5 => scn_uni::ROp::SendOldest,
                        6 => scn_uni::ROp::SendNewest,
                        7 | 8 => {
                            if movable && !single {
                                // (`TryCancelNewestOnce` -- one cancel attempt among several threads -- is implemented but not
                                // generated: "reverse reservation order" is then not under one thread's control, i.e. outside the
                                // documented use; on the unchanged tree such runs already end with publishers waiting forever)
                                scn_uni::ROp::SendOldest
                            } else {
                                scn_uni::ROp::CancelNewest
                            }
                        }
                        _ => scn_uni::ROp::PlainSend,
                    })
                    .collect()
            })
            .collect();
        HeldParams { own: OwnCfg { clone: 0, share: 0, give: 0, bulk: 0 }, uni: Some(p), multi: None }
    }
    fn with_sched(&self, p: &HeldParams, s: SchedSpec) -> HeldParams {
        HeldConc.with_sched(p, s)
    }
    fn body(&self, p: &HeldParams) -> Option<Body> {
        let p2 = p.clone();
        Some(Arc::new(move || conc_body(&p2, "C08", "reserve_conc")))
    }
    fn assumptions(&self) -> Vec<String> {
        vec![
            "sequential consistency at the instrumented atomics; plain shared accesses interleave at the instrumented yield points".into(),
            "the movable atomic channel is driven within its documented restrictions: a thread holding a reservation issues no plain send; cancellations only when a single thread uses the ring (reverse reservation order is then under its control) and only of slots nothing was written to; a thread sends its own reservations oldest first".into(),
            "try_send_reserved / try_cancel_slot_reserve answering false are retried (with a scheduling point in between) until they answer true".into(),
            "capacity is judged after every reservation was sent or cancelled, the consumers were stopped, and with nothing buffered or held".into(),
        ]
    }
}

pub struct RejectConc;

const REJECT_UNI_KINDS: [Kind; 5] = [Kind::UniMoveAtomic, Kind::UniMoveFullSync, Kind::UniMoveCrossbeam, Kind::UniZcAtomic, Kind::UniZcFullSync];
const REJECT_MULTI_KINDS: [Kind; 2] = [Kind::MultiOgreAtomic, Kind::MultiOgreFullSync];

impl Scenario for RejectConc {
    conc_scenario_common!();
    fn property(&self) -> &'static str {
        "C16"
    }
    fn name(&self) -> &'static str {
        "reject_conc"
    }
    fn generate(&self, rng: &mut Rng, tier: Tier) -> HeldParams {
        let own = OwnCfg { clone: 0, share: 0, give: 0, bulk: 0 };
        let max_ops = if tier == Tier::Thorough { 10 } else { 8 };
        let mut out = if rng.chance(3, 4) {
            let mut p = scn_uni::draw_uni_params(rng, tier, &REJECT_UNI_KINDS, &[1, 2], true);
            // small buffers, several producers with more events than there is room for, a consumer that may keep handles:
            // sends are rejected while others are in flight on the "full" boundary
            p.buffer = *rng.pick(&[2usize, 2, 4]);
            p.prefill = rng.below(p.buffer as u64 + 1) as u32;
            p.hold = if p.kind.is_zero_copy() { rng.below(p.buffer as u64) as u32 } else { 0 };
            let n_prod = 2 + rng.below(2) as usize;
            p.producers = (0..n_prod)
                .map(|_| {
                    let n = 2 + rng.below(max_ops) as usize;
                    (0..n)
                        .map(|_| {
                            if p.kind == Kind::UniMoveCrossbeam {
                                // its setter-based sends wait for room after their fullness test (excluded by the property)
                                Entry::Send
                            } else {
                                scn_uni::draw_entry(rng, p.kind)
                            }
                        })
                        .collect()
                })
                .collect();
            HeldParams { own, uni: Some(p), multi: None }
        } else {
            let mut p = scn_multi::draw_multi_params(rng, tier, &REJECT_MULTI_KINDS, &[1, 2], 2);
            p.buffer = *rng.pick(&[2usize, 4]);
            p.hold = rng.below(p.buffer as u64) as u32;
            let n_prod = 2 + rng.below(2) as usize;
            // the pool (BUFFER_SIZE payload slots) runs dry before a listener's queue does: rejections, never the 'full listener' panic
            p.producers = (0..n_prod).map(|_| (0..(1 + rng.below(max_ops / 2) as usize)).map(|_| scn_multi::draw_multi_entry(rng, p.kind)).collect()).collect();
            HeldParams { own, uni: None, multi: Some(p) }
        };
        // "returns promptly": an operation that does not return within 3000 of its own scheduling points, under a fair
        // scheduler without injected stalls, is reported (see C20 for the same bound)
        let sched = match (&mut out.uni, &mut out.multi) {
            (Some(u), _) => &mut u.sched,
            (_, Some(m)) => &mut m.sched,
            _ => unreachable!(),
        };
        sched.stall = 0;
        sched.starvation = 64;
        sched.op_step_bound = 3_000;
        out
    }
    fn with_sched(&self, p: &HeldParams, s: SchedSpec) -> HeldParams {
        let mut s = s;
        s.stall = 0;
        s.starvation = 64;
        s.op_step_bound = 3_000;
        HeldConc.with_sched(p, s)
    }
    fn body(&self, p: &HeldParams) -> Option<Body> {
        let p2 = p.clone();
        Some(Arc::new(move || conc_body(&p2, "C16", "reject_conc")))
    }
    fn assumptions(&self) -> Vec<String> {
        vec![
            "sequential consistency at the instrumented atomics; plain shared accesses interleave at the instrumented yield points".into(),
            "'returns promptly' is judged as: at most 3000 of the operation's own scheduling points under a scheduler without injected stalls and with a starvation bound of 64 decisions".into(),
            "the crossbeam channel is driven with plain send() only (its setter-based sends wait for room after their fullness test: excluded by the property); the Arc Multi kinds are excluded by the property".into(),
            "'capacity never shrinks' is judged after every producer returned, the consumers were stopped and nothing is buffered or held: exactly BUFFER_SIZE sends are accepted and the next one is rejected".into(),
        ]
    }
}
