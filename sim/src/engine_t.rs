//! Engine T: one run = one shuttle execution (simulated threads are coroutines on the calling OS thread) under
//! our own scheduler; the scheduling policy, fault coins and decision log live in `ctx::RunCtx`.

use crate::ctx::{self, Mode, RunCtx, SchedSpec, SimAbort, Violation, CTX, LAST_PANIC, MAX_TASKS};
use shuttle::scheduler::{Schedule, Scheduler, Task, TaskId};
use std::cell::RefCell;
use std::collections::BTreeMap;
use std::rc::Rc;
use std::sync::Arc;
use std::mem::ManuallyDrop;
use std::ops::{Deref, DerefMut};

struct SimScheduler {
    started: bool,
}

impl Scheduler for SimScheduler {
    fn new_execution(&mut self) -> Option<Schedule> {
        if self.started {
            None
        } else {
            self.started = true;
            Some(Schedule::new(0))
        }
    }

    fn next_task(&mut self, runnable_tasks: &[&Task], current_task: Option<TaskId>, is_yielding: bool) -> Option<TaskId> {
        let mut runnable = [0usize; MAX_TASKS];
        let mut n = 0;
        for t in runnable_tasks {
            // shuttle also offers tasks that are blocked in `park()` ("may wake up spuriously"): a parked driver is parked
            // until its waker is invoked -- spurious polls are a separate, counted fault of the harness
            if !t.runnable() {
                continue;
            }
            let idx = usize::from(t.id());
            assert!(idx < MAX_TASKS, "too many simulated tasks");
            runnable[n] = idx;
            n += 1;
        }
        let current = current_task.map(usize::from);
        let chosen = CTX.with(|c| {
            let mut b = c.borrow_mut();
            let ctx = b.as_mut().expect("scheduler called without a run context");
            ctx.choose(&runnable[..n], current, is_yielding)
        });
        chosen.map(TaskId::from)
    }

    fn next_u64(&mut self) -> u64 {
        ctx::with_ctx(|c| c.rng.next()).unwrap_or(0)
    }
}

#[derive(Debug, Clone, Default)]
pub struct RunOut {
    pub decisions: Vec<u8>,
    pub steps: u64,
    pub switches: u32,
    pub preemptions: u32,
    pub sig: u64,
    pub probes: BTreeMap<&'static str, u64>,
    pub faults: BTreeMap<&'static str, u64>,
    pub sim_time_ns: u64,
    pub violations: Vec<Violation>,
    pub aborted: Option<String>,
    pub panic: Option<String>,
    pub script_mismatch: u32,
    pub trace: Vec<String>,
    pub stamps: u64,
}

impl RunOut {
    pub fn from_ctx(ctx: RunCtx, panic: Option<String>) -> Self {
        RunOut {
            decisions: ctx.decisions,
            steps: ctx.steps,
            switches: ctx.switches,
            preemptions: ctx.preemptions,
            sig: ctx.sig,
            probes: ctx.probes,
            faults: ctx.faults,
            sim_time_ns: ctx.sim_time_ns,
            violations: ctx.violations,
            aborted: ctx.aborted,
            panic,
            script_mismatch: ctx.script_mismatch,
            trace: ctx.trace,
            stamps: ctx.stamp,
        }
    }
    /// digest of everything observable about the run, for the determinism check
    pub fn digest(&self) -> u64 {
        let mut h = 0xcbf29ce484222325u64;
        let mut mix = |x: u64| {
            h = (h ^ x).wrapping_mul(0x100000001b3);
        };
        for d in &self.decisions {
            mix(*d as u64);
        }
        mix(self.steps);
        mix(self.stamps);
        mix(self.violations.len() as u64);
        for v in &self.violations {
            for b in v.key.bytes() {
                mix(b as u64);
            }
        }
        mix(self.aborted.is_some() as u64);
        mix(self.panic.is_some() as u64);
        for (k, v) in &self.probes {
            mix(k.len() as u64);
            mix(*v);
        }
        h
    }
}

pub type Body = Arc<dyn Fn() + Send + Sync + 'static>;

thread_local! {
    static BODY: RefCell<Option<Body>> = const { RefCell::new(None) };
}

struct PumpState {
    next: Box<dyn FnMut() -> Option<(SchedSpec, bool, Body)>>,
    done: Box<dyn FnMut(RunOut)>,
    in_flight: bool,
}

impl PumpState {
    fn finish_in_flight(&mut self, panic: Option<String>) {
        if self.in_flight {
            self.in_flight = false;
            let ctx = CTX.with(|c| c.borrow_mut().take()).expect("run context vanished");
            BODY.with(|b| *b.borrow_mut() = None);
            (self.done)(RunOut::from_ctx(ctx, panic));
        }
    }
}

struct PumpScheduler {
    state: Rc<RefCell<PumpState>>,
}

impl Scheduler for PumpScheduler {
    fn new_execution(&mut self) -> Option<Schedule> {
        let mut st = self.state.borrow_mut();
        st.finish_in_flight(None);
        let (spec, trace_on, body) = (st.next)()?;
        let mut rc = RunCtx::new(Mode::Threads, spec);
        rc.trace_on = trace_on;
        CTX.with(|c| *c.borrow_mut() = Some(rc));
        LAST_PANIC.with(|p| *p.borrow_mut() = None);
        BODY.with(|b| *b.borrow_mut() = Some(body));
        st.in_flight = true;
        Some(Schedule::new(0))
    }

    fn next_task(&mut self, runnable_tasks: &[&Task], current_task: Option<TaskId>, is_yielding: bool) -> Option<TaskId> {
        SimScheduler { started: true }.next_task(runnable_tasks, current_task, is_yielding)
    }

    fn next_u64(&mut self) -> u64 {
        ctx::with_ctx(|c| c.rng.next()).unwrap_or(0)
    }
}

fn shuttle_config() -> shuttle::Config {
    let mut config = shuttle::Config::new();
    config.stack_size = 0x40000;
    config.failure_persistence = shuttle::FailurePersistence::None;
    config.max_steps = shuttle::MaxSteps::None;
    config.silence_warnings = true;
    config
}

/// Runs a stream of simulated runs on the calling OS thread, one shuttle execution each, sharing one shuttle `Runner`
/// (and so its pool of coroutine stacks) for as long as no run panics. `next` supplies (schedule spec, trace?, body);
/// `done` receives the outcome of the run most recently supplied.
pub fn run_stream(next: Box<dyn FnMut() -> Option<(SchedSpec, bool, Body)>>, done: Box<dyn FnMut(RunOut)>) {
    ctx::install_hooks();
    let state = Rc::new(RefCell::new(PumpState { next, done, in_flight: false }));
    loop {
        let runner = shuttle::Runner::new(PumpScheduler { state: Rc::clone(&state) }, shuttle_config());
        let result = std::panic::catch_unwind(std::panic::AssertUnwindSafe(|| {
            runner.run(|| {
                let body = BODY.with(|b| b.borrow().clone()).expect("no body for this execution");
                body()
            });
        }));
        match result {
            Ok(()) => {
                state.borrow_mut().finish_in_flight(None);
                break;
            }
            Err(payload) => {
                let panic = if payload.downcast_ref::<SimAbort>().is_some() {
                    None
                } else {
                    let recorded = LAST_PANIC.with(|p| p.borrow_mut().take());
                    Some(recorded.unwrap_or_else(|| {
                        if let Some(s) = payload.downcast_ref::<&str>() {
                            s.to_string()
                        } else if let Some(s) = payload.downcast_ref::<String>() {
                            s.clone()
                        } else {
                            "<panic>".to_string()
                        }
                    }))
                };
                // a panic that escaped while no run was in flight is the harness's own
                let mut st = state.borrow_mut();
                if !st.in_flight {
                    drop(st);
                    panic!("harness: panic outside of a run: {:?}", panic);
                }
                st.finish_in_flight(panic);
            }
        }
    }
}

/// Runs `body` as the main simulated thread of one shuttle execution.
pub fn run_threads<F>(spec: &SchedSpec, trace_on: bool, body: F) -> RunOut
where
    F: Fn() + Send + Sync + 'static,
{
    let body: Body = Arc::new(body);
    let mut job = Some((spec.clone(), trace_on, body));
    let out: Rc<RefCell<Option<RunOut>>> = Rc::new(RefCell::new(None));
    let out2 = Rc::clone(&out);
    run_stream(Box::new(move || job.take()), Box::new(move |o| *out2.borrow_mut() = Some(o)));
    let o = out.borrow_mut().take().expect("run produced no outcome");
    o
}

/// Runs `body` single-threaded with a passive context (engines D and H): hooks count, probes and ledgers work,
/// a never-ending spin is turned into an abort.
pub fn run_passive<R>(spec: &SchedSpec, trace_on: bool, body: impl FnOnce() -> R) -> (RunOut, Option<R>) {
    ctx::install_hooks();
    let mut rc = RunCtx::new(Mode::Passive, spec.clone());
    rc.trace_on = trace_on;
    CTX.with(|c| *c.borrow_mut() = Some(rc));
    LAST_PANIC.with(|p| *p.borrow_mut() = None);
    let result = std::panic::catch_unwind(std::panic::AssertUnwindSafe(body));
    let ctx = CTX.with(|c| c.borrow_mut().take()).expect("run context vanished");
    let (panic, ret) = match result {
        Ok(r) => (None, Some(r)),
        Err(payload) => {
            if payload.downcast_ref::<SimAbort>().is_some() {
                (None, None)
            } else {
                let recorded = LAST_PANIC.with(|p| p.borrow_mut().take());
                (Some(recorded.unwrap_or_else(|| "<panic>".to_string())), None)
            }
        }
    };
    (RunOut::from_ctx(ctx, panic), ret)
}

/// Wrapper for objects of the crate under test that live on harness stacks: when a run is being aborted (stall
/// verdict, step cap, panic) their destructors are *not* run, so that unwinding never executes code that could
/// spin on a lock held by a frozen simulated thread.
pub struct Guarded<T>(ManuallyDrop<T>);

impl<T> Guarded<T> {
    pub fn new(v: T) -> Self {
        Guarded(ManuallyDrop::new(v))
    }
    pub fn into_inner(mut self) -> T {
        let v = unsafe { ManuallyDrop::take(&mut self.0) };
        std::mem::forget(self);
        v
    }
}

impl<T> Deref for Guarded<T> {
    type Target = T;
    fn deref(&self) -> &T {
        &self.0
    }
}

impl<T> DerefMut for Guarded<T> {
    fn deref_mut(&mut self) -> &mut T {
        &mut self.0
    }
}

impl<T> Drop for Guarded<T> {
    fn drop(&mut self) {
        if std::thread::panicking() || ctx::aborted() {
            return; // leak on purpose
        }
        unsafe { ManuallyDrop::drop(&mut self.0) }
    }
}

unsafe impl<T: Send> Send for Guarded<T> {}
unsafe impl<T: Sync> Sync for Guarded<T> {}
