//! Scenario family `listener_conc` (C10, engine T): listeners are created, polled and dropped (with whatever they have
//! not consumed) by two manager threads *concurrently with each other*, in rounds; the sends happen between the
//! rounds, on the orchestrating thread, so that -- as the property says -- listeners come and go "between sends" and
//! the reference model is exact: a listener must yield exactly the events accepted while it existed, in order, each
//! once, nothing else (in particular nothing a previous holder of its stream id left behind); the running-stream
//! count equals the number of live streams at every quiescent point; stream ids never run out.
//! What is concurrent here is the bookkeeping of stream ids (`create_stream_id`, `report_stream_dropped`, the rebuild
//! of the live list) and the polls of *other* listeners. Churn concurrent with sends is C17's subject.

use crate::chan::{self, ChanDyn, Kind, StreamDyn};
use crate::ctx::{self, harness_point, SchedSpec};
use crate::engine_t::Body;
use crate::framework::{Scenario, Tier};
use crate::harness::{self, HLock};
use crate::payload::Tracked;
use crate::rng::Rng;
use serde::{Deserialize, Serialize};
use std::collections::VecDeque;
use std::sync::Arc;
use std::task::{Context, Poll};

#[derive(Clone, Copy, Debug, PartialEq, Eq, Serialize, Deserialize)]
pub enum MgrOp {
    Create,
    /// drop my k-th listener together with whatever it has not consumed
    Drop(u8),
    /// poll my k-th listener once
    Poll(u8),
}

#[derive(Clone, Debug, Serialize, Deserialize)]
pub struct LifeRound {
    /// per manager thread: its operations in this round
    pub ops: Vec<Vec<MgrOp>>,
    /// events sent by the orchestrator after the managers of this round have been joined
    pub sends: u32,
}

#[derive(Clone, Debug, Serialize, Deserialize)]
pub struct LifeParams {
    pub sched: SchedSpec,
    pub kind: Kind,
    pub buffer: usize,
    pub max_streams: usize,
    pub rounds: Vec<LifeRound>,
}

struct Model {
    queue: VecDeque<u32>,
    alive: bool,
    stream_id: u32,
}

struct Slot {
    stream: Box<dyn StreamDyn>,
    li: usize,
}

type Models = Arc<HLock<Vec<Model>>>;

fn poll_once(property_key: &dyn Fn(&str) -> String, models: &Models, slot: &mut Slot, is_uni: bool, uni_queue: &Arc<HLock<VecDeque<u32>>>, when: &str) -> bool {
    let waker = futures::task::noop_waker();
    let mut cx = Context::from_waker(&waker);
    ctx::op_mark("poll_next");
    let polled = slot.stream.poll(&mut cx);
    ctx::op_mark("");
    let expected = if is_uni { uni_queue.lock().unwrap().front().copied() } else { models.lock().unwrap()[slot.li].queue.front().copied() };
    match polled {
        Poll::Ready(Some(h)) => {
            let (id, intact) = (h.id(), h.intact());
            drop(h);
            if !intact {
                ctx::report("C10", "payload_corrupted", property_key("payload_corrupted"), format!("{}: listener #{} yielded a payload that is not what was sent (id field {:#x})", when, slot.li, id));
            }
            match expected {
                Some(e) if e == id => {
                    if is_uni {
                        uni_queue.lock().unwrap().pop_front();
                    } else {
                        models.lock().unwrap()[slot.li].queue.pop_front();
                    }
                }
                Some(e) => {
                    ctx::report("C10", "wrong_event", property_key("wrong_event"), format!("{}: listener #{} (stream id {}) yielded {:#x} where the events accepted during its lifetime say {:#x} comes next", when, slot.li, slot.stream.stream_id(), id, e));
                    if is_uni {
                        uni_queue.lock().unwrap().retain(|x| *x != id);
                    } else {
                        models.lock().unwrap()[slot.li].queue.retain(|x| *x != id);
                    }
                }
                None => {
                    ctx::report("C10", "unexpected_event", property_key("unexpected_event"), format!("{}: listener #{} (stream id {}) yielded {:#x} although nothing accepted during its lifetime is outstanding for it (an event sent before it existed, or a repeat)", when, slot.li, slot.stream.stream_id(), id));
                }
            }
            true
        }
        Poll::Ready(None) => {
            ctx::report("C10", "ended_without_request", property_key("ended_without_request"), format!("{}: listener #{} answered end-of-stream without having been told to end", when, slot.li));
            false
        }
        Poll::Pending => {
            if let Some(e) = expected {
                ctx::report("C10", "missed_event", property_key("missed_event"), format!("{}: listener #{} (stream id {}) answered Pending while {:#x}, accepted during its lifetime, has not been yielded to it", when, slot.li, slot.stream.stream_id(), e));
                // do not report the same hole again and again
                if is_uni {
                    uni_queue.lock().unwrap().clear();
                } else {
                    models.lock().unwrap()[slot.li].queue.clear();
                }
            }
            false
        }
    }
}

fn life_body(p: &LifeParams) {
    harness::reset();
    let kind = p.kind;
    let kind_name = kind.name();
    let key = move |oracle: &str| format!("listener_conc/{}/{}", kind_name, oracle);
    let is_uni = kind.is_uni();
    let ch: Arc<Box<dyn ChanDyn>> = Arc::new(chan::make::<Tracked>(kind, p.buffer, p.max_streams, "unused"));
    let models: Models = Arc::new(HLock::new(vec![]));
    let uni_queue: Arc<HLock<VecDeque<u32>>> = Arc::new(HLock::new(VecDeque::new()));
    let n_mgr = p.rounds.iter().map(|r| r.ops.len()).max().unwrap_or(1).max(1);
    let quota = (p.max_streams / n_mgr).max(1);
    let mut slots: Vec<Vec<Slot>> = (0..n_mgr).map(|_| vec![]).collect();
    let mut next_id = 1u32;
    for (round_no, round) in p.rounds.iter().enumerate() {
        // ---- the managers of this round, concurrently
        let mut handles = vec![];
        for m in 0..n_mgr {
            let ops = round.ops.get(m).cloned().unwrap_or_default();
            let mut mine = std::mem::take(&mut slots[m]);
            let (ch2, models2, uni_queue2) = (Arc::clone(&ch), Arc::clone(&models), Arc::clone(&uni_queue));
            handles.push(shuttle::thread::spawn(move || {
                let key = move |oracle: &str| format!("listener_conc/{}/{}", kind_name, oracle);
                for op in ops {
                    if ctx::aborted() {
                        break;
                    }
                    harness_point();
                    match op {
                        MgrOp::Create => {
                            if mine.len() < quota {
                                ctx::op_mark("create_stream");
                                let stream = ch2.create_stream();
                                ctx::op_mark("");
                                ctx::fault_fired("listener_churn");
                                let stream_id = stream.stream_id();
                                let li = {
                                    let mut ms = models2.lock().unwrap();
                                    if let Some(other) = ms.iter().position(|x| x.alive && x.stream_id == stream_id) {
                                        ctx::report("C10", "stream_id_in_use_twice", key("stream_id_in_use_twice"), format!("a new listener was given stream id {}, which live listener #{} still holds", stream_id, other));
                                    }
                                    ms.push(Model { queue: VecDeque::new(), alive: true, stream_id });
                                    ms.len() - 1
                                };
                                ctx::trace(|| format!("manager {} created listener #{} (stream id {})", m, li, stream_id));
                                mine.push(Slot { stream, li });
                            }
                        }
                        MgrOp::Drop(k) => {
                            if !mine.is_empty() {
                                let i = (k as usize) % mine.len();
                                let slot = mine.remove(i);
                                models2.lock().unwrap()[slot.li].alive = false;
                                ctx::trace(|| format!("manager {} drops listener #{} (stream id {})", m, slot.li, slot.stream.stream_id()));
                                ctx::op_mark("drop_stream");
                                drop(slot);
                                ctx::op_mark("");
                                ctx::fault_fired("consumer_crash");
                            }
                        }
                        MgrOp::Poll(k) => {
                            if !mine.is_empty() {
                                let i = (k as usize) % mine.len();
                                poll_once(&key, &models2, &mut mine[i], is_uni, &uni_queue2, "during a round");
                            }
                        }
                    }
                }
                mine
            }));
        }
        for (m, h) in handles.into_iter().enumerate() {
            match h.join() {
                Ok(mine) => slots[m] = mine,
                Err(_) => return,
            }
        }
        if ctx::aborted() {
            return;
        }
        // ---- quiescent point: bookkeeping
        let live: usize = slots.iter().map(|s| s.len()).sum();
        let running = ch.running_streams() as usize;
        if running != live {
            ctx::report("C10", "running_streams_count", key("running_streams_count"), format!("after round {}: running_streams_count() == {} with {} live streams", round_no, running, live));
        }
        // ---- keep every listener's backlog below the buffer size (the Arc kinds wait when a listener is full)
        let sends = round.sends as usize;
        let too_full = if is_uni { uni_queue.lock().unwrap().len() + sends >= p.buffer } else { models.lock().unwrap().iter().any(|m| m.alive && m.queue.len() + sends >= p.buffer) };
        if too_full || (is_uni && live == 0 && uni_queue.lock().unwrap().len() + sends >= p.buffer) {
            for mine in slots.iter_mut() {
                for slot in mine.iter_mut() {
                    let mut guard = 0;
                    while poll_once(&key, &models, slot, is_uni, &uni_queue, "draining between rounds") {
                        guard += 1;
                        if guard > 64 {
                            break;
                        }
                    }
                }
            }
        }
        let room = if is_uni { p.buffer.saturating_sub(1).saturating_sub(uni_queue.lock().unwrap().len()) } else { usize::MAX };
        // ---- the sends of this round (nobody else runs: "between sends")
        for _ in 0..sends.min(room) {
            let id = next_id;
            next_id += 1;
            ctx::op_mark("send");
            let accepted = if next_id % 2 == 0 { ch.send(id).accepted() } else { ch.send_with(id).accepted() };
            ctx::op_mark("");
            ctx::trace(|| format!("send({:#x}) -> {}", id, accepted));
            if !accepted {
                // a send that finds no room although every backlog is below the buffer size: storage held by something that
                // is gone (C05 / C17 territory); here it only means the model must not expect the event
                ctx::with_ctx(|c| *c.probes.entry("harness.listener_conc.send_rejected").or_insert(0) += 1);
                continue;
            }
            if is_uni {
                uni_queue.lock().unwrap().push_back(id);
            } else {
                for m in models.lock().unwrap().iter_mut().filter(|m| m.alive) {
                    m.queue.push_back(id);
                }
            }
        }
    }
    // ---- the end: every live listener yields all that is left for it, in order, then nothing
    for mine in slots.iter_mut() {
        for slot in mine.iter_mut() {
            let mut guard = 0;
            while poll_once(&key, &models, slot, is_uni, &uni_queue, "final drain") {
                guard += 1;
                if guard > 64 {
                    break;
                }
            }
        }
    }
    if ctx::aborted() {
        return;
    }
    for mine in slots.iter_mut() {
        mine.clear();
    }
    let running = ch.running_streams();
    if running != 0 {
        ctx::report("C10", "running_streams_count", key("running_streams_count"), format!("after every stream was dropped running_streams_count() == {}", running));
    }
    // stream ids never run out: MAX_STREAMS streams can be created again, with distinct ids, and counted
    ctx::op_mark("create_stream");
    let all: Vec<Box<dyn StreamDyn>> = (0..p.max_streams).map(|_| ch.create_stream()).collect();
    ctx::op_mark("");
    let mut ids: Vec<u32> = all.iter().map(|s| s.stream_id()).collect();
    ids.sort_unstable();
    ids.dedup();
    if ids.len() != p.max_streams || ch.running_streams() as usize != p.max_streams {
        ctx::report("C10", "stream_ids_after_churn", key("stream_ids_after_churn"), format!("after the churn, creating MAX_STREAMS = {} streams gave ids {:?} and running_streams_count() == {}", p.max_streams, ids, ch.running_streams()));
    }
    drop(all);
}

pub struct ListenerConc;

const LIFE_KINDS: [Kind; 8] = [Kind::MultiArcAtomic, Kind::MultiArcFullSync, Kind::MultiArcCrossbeam, Kind::MultiOgreAtomic, Kind::MultiOgreFullSync, Kind::UniMoveAtomic, Kind::UniMoveFullSync, Kind::UniZcAtomic];

impl Scenario for ListenerConc {
    type P = LifeParams;
    fn property(&self) -> &'static str {
        "C10"
    }
    fn name(&self) -> &'static str {
        "listener_conc"
    }
    fn engine(&self) -> &'static str {
        "T"
    }
    fn generate(&self, rng: &mut Rng, tier: Tier) -> LifeParams {
        let kind = *rng.pick(&LIFE_KINDS);
        let buffer = *rng.pick(&[4usize, 8]);
        let max_streams = *rng.pick(&[2usize, 4, 4]);
        let n_rounds = 1 + rng.below(if tier == Tier::Thorough { 5 } else { 4 }) as usize;
        let rounds = (0..n_rounds)
            .map(|r| {
                let ops = (0..2)
                    .map(|_| {
                        let n = 1 + rng.below(4) as usize;
                        (0..n)
                            .map(|_| {
                                let k = rng.below(2) as u8;
                                match rng.below(10) {
                                    0..=3 => MgrOp::Create,
                                    4..=6 => MgrOp::Drop(k),
                                    _ => MgrOp::Poll(k),
                                }
                            })
                            .collect::<Vec<_>>()
                    })
                    .map(|mut v: Vec<MgrOp>| {
                        // the first round starts from nothing: make sure something gets created
                        if r == 0 {
                            v.insert(0, MgrOp::Create);
                        }
                        v
                    })
                    .collect();
                // Uni channels: the create / drop bookkeeping only (their streams share one queue: per-listener expectations do not apply)
                LifeRound { ops, sends: if kind.is_uni() { 0 } else { rng.below(3) as u32 } }
            })
            .collect();
        let mut sched = SchedSpec::draw(rng);
        if rng.chance(1, 5) {
            sched.origin = u32::MAX - rng.below(3 * buffer as u64 + 2) as u32;
        }
        LifeParams { sched, kind, buffer, max_streams, rounds }
    }
    fn sched<'a>(&self, p: &'a LifeParams) -> &'a SchedSpec {
        &p.sched
    }
    fn with_sched(&self, p: &LifeParams, s: SchedSpec) -> LifeParams {
        let mut q = p.clone();
        q.sched = s;
        q
    }
    fn body(&self, p: &LifeParams) -> Option<Body> {
        let p2 = p.clone();
        Some(Arc::new(move || life_body(&p2)))
    }
    fn key_context(&self, p: &LifeParams) -> String {
        format!("{}/", p.kind.name())
    }
    fn shrink(&self, p: &LifeParams) -> Vec<LifeParams> {
        let mut out = vec![];
        if p.rounds.len() > 1 {
            for i in (0..p.rounds.len()).rev() {
                let mut q = p.clone();
                q.rounds.remove(i);
                out.push(q);
            }
        }
        for r in 0..p.rounds.len() {
            for m in 0..p.rounds[r].ops.len() {
                for j in (0..p.rounds[r].ops[m].len()).rev() {
                    let mut q = p.clone();
                    q.rounds[r].ops[m].remove(j);
                    out.push(q);
                }
            }
            if p.rounds[r].sends > 0 {
                let mut q = p.clone();
                q.rounds[r].sends -= 1;
                out.push(q);
            }
        }
        if p.sched.origin != 0 {
            let mut q = p.clone();
            q.sched.origin = 0;
            out.push(q);
        }
        if p.sched.weak_cas > 0 || p.sched.stall > 0 {
            let mut q = p.clone();
            q.sched.weak_cas = 0;
            q.sched.stall = 0;
            out.push(q);
        }
        out
    }
    fn size(&self, p: &LifeParams) -> u64 {
        p.rounds.iter().map(|r| r.ops.iter().map(|o| o.len() as u64).sum::<u64>() * 3 + r.sends as u64 + 2).sum::<u64>() + p.max_streams as u64
    }
    fn components(&self) -> serde_json::Value {
        serde_json::json!({"real": ["reactive-mutiny Multi / Uni channels, streams manager, ring buffers, pool allocators (/repo working tree, feature verif)"], "stub": []})
    }
    fn assumptions(&self) -> Vec<String> {
        vec![
            "sequential consistency at the instrumented atomics; the plain shared cells of the streams manager interleave at the instrumented yield points, whole accesses only".into(),
            "listeners are created, polled and dropped concurrently with each other, but never concurrently with a send (the property says 'between sends'; churn during sends is C17's subject), so the per-listener reference model is exact".into(),
            "each manager thread stays within its share of MAX_STREAMS, so at most MAX_STREAMS streams exist at any instant by construction".into(),
            "every listener's backlog is kept below BUFFER_SIZE (the Arc kinds wait by design when a listener's buffer is full)".into(),
        ]
    }
}
