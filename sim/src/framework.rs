//! Batch runner: seeded search over many short runs on all cores, determinism self-check, minimisation, replay
//! files, known-findings matching, evidence files, exit codes.

use crate::ctx::{Policy, SchedSpec, Violation};
use crate::engine_t::RunOut;
use crate::rng::{run_seed, Rng};
use serde::{de::DeserializeOwned, Deserialize, Serialize};
use serde_json::{json, Value};
use std::collections::{BTreeMap, HashSet};
use std::path::{Path, PathBuf};
use std::sync::atomic::{AtomicBool, AtomicU64, Ordering};
use std::sync::{Arc, Mutex};
use std::time::{Duration, Instant};

#[derive(Clone, Copy, Debug, PartialEq, Eq)]
pub enum Tier {
    Quick,
    Thorough,
}

impl Tier {
    pub fn name(self) -> &'static str {
        match self {
            Tier::Quick => "quick",
            Tier::Thorough => "thorough",
        }
    }
}

pub trait Scenario: Send + Sync + 'static {
    type P: Serialize + DeserializeOwned + Clone + Send + Sync + 'static;
    /// property this scenario decides
    fn property(&self) -> &'static str;
    /// scenario family name (goes into replay files and finding keys)
    fn name(&self) -> &'static str;
    fn engine(&self) -> &'static str;
    /// draws all parameters of one run (workload, sizes, faults, schedule spec) from `rng`
    fn generate(&self, rng: &mut Rng, tier: Tier) -> Self::P;
    fn sched<'a>(&self, p: &'a Self::P) -> &'a SchedSpec;
    fn with_sched(&self, p: &Self::P, s: SchedSpec) -> Self::P;
    /// engine T: the body of the run's main simulated thread (None for the other engines, which override `execute`)
    fn body(&self, _p: &Self::P) -> Option<crate::engine_t::Body> {
        None
    }
    /// executes one run; violations of the property are in `RunOut::violations`
    fn execute(&self, p: &Self::P, trace: bool) -> RunOut {
        let body = self.body(p).expect("scenario provides neither body() nor execute()");
        let out: std::rc::Rc<std::cell::RefCell<Option<RunOut>>> = Default::default();
        let out2 = std::rc::Rc::clone(&out);
        let mut job = Some((self.sched(p).clone(), trace, body));
        crate::engine_t::run_stream(Box::new(move || job.take()), Box::new(move |o| *out2.borrow_mut() = Some(o)));
        let o = out.borrow_mut().take().expect("run produced no outcome");
        o
    }
    /// strictly simpler parameter sets to try during minimisation
    fn shrink(&self, _p: &Self::P) -> Vec<Self::P> {
        vec![]
    }
    /// a rough size, to prefer smaller failing cases
    fn size(&self, _p: &Self::P) -> u64 {
        0
    }
    /// is this run non-trivial for the evidence count? (default: at least one preemption inside an operation)
    fn nontrivial(&self, _p: &Self::P, out: &RunOut) -> bool {
        out.preemptions > 0
    }
    /// extra (measured) key for the distinctness count, combined with the context-switch signature
    fn distinct_key(&self, _p: &Self::P, out: &RunOut) -> u64 {
        out.sig
    }
    fn components(&self) -> Value {
        json!({"real": ["reactive-mutiny (whole crate, /repo working tree, feature verif)", "crossbeam-channel", "futures", "keen-retry"], "stub": []})
    }
    fn assumptions(&self) -> Vec<String> {
        vec![]
    }
    /// scenario-specific context put into the keys of verdicts the framework itself derives (un-attributed panics, livelocks)
    fn key_context(&self, _p: &Self::P) -> String {
        String::new()
    }
    /// Is "operation `op` of the code under test never returns" something this scenario's *property* speaks about? (When it
    /// is not, the run is counted under `incidental` in the evidence and nothing is reported: a check must not demand more
    /// than its property states.)
    fn livelock_in_scope(&self, _p: &Self::P, _op: &str) -> bool {
        true
    }
}

#[derive(Clone, Debug, Serialize, Deserialize)]
pub struct KnownFinding {
    pub property: String,
    /// violation key; `*` matches any run of characters
    pub key: String,
    /// "known" | "fixed"
    pub status: String,
    pub what: String,
    #[serde(default)]
    pub commit: Option<String>,
    #[serde(default)]
    pub replay: Option<String>,
}

pub fn verif_root() -> PathBuf {
    if let Some(p) = std::env::var_os("VERIF_ROOT") {
        return PathBuf::from(p);
    }
    // the binary lives in /verif/sim/target*/<profile>/sim
    let exe = std::env::current_exe().unwrap();
    let mut p = exe.as_path();
    while let Some(parent) = p.parent() {
        if parent.join("MANIFEST.json").exists() && parent.join("properties.jsonl").exists() {
            return parent.to_path_buf();
        }
        p = parent;
    }
    PathBuf::from("/verif")
}

pub fn load_known_findings() -> Vec<KnownFinding> {
    let path = verif_root().join("known_findings.json");
    match std::fs::read_to_string(&path) {
        Ok(s) => serde_json::from_str(&s).unwrap_or_else(|e| {
            eprintln!("harness error: cannot parse {}: {}", path.display(), e);
            std::process::exit(2)
        }),
        Err(_) => vec![],
    }
}

/// `*` matches any (possibly empty) run of characters
pub fn glob_match(pattern: &str, text: &str) -> bool {
    let parts: Vec<&str> = pattern.split('*').collect();
    if parts.len() == 1 {
        return pattern == text;
    }
    let mut pos = 0usize;
    for (i, part) in parts.iter().enumerate() {
        if i == 0 {
            if !text.starts_with(part) {
                return false;
            }
            pos = part.len();
        } else if i == parts.len() - 1 {
            return text.len() >= pos + part.len() && text[pos..].ends_with(part);
        } else {
            match text[pos..].find(part) {
                Some(at) => pos += at + part.len(),
                None => return false,
            }
        }
    }
    true
}

pub fn match_known<'a>(known: &'a [KnownFinding], v: &Violation) -> Option<&'a KnownFinding> {
    known.iter().find(|k| {
        k.status == "known"
            && k.property == v.property
            && glob_match(&k.key, &v.key)
    })
}

/// Is a (property, key-prefix) listed as a known finding? Scenarios use this to sample known-broken combinations rarely.
pub fn is_known_prefix(known: &[KnownFinding], property: &str, prefix: &str) -> bool {
    known.iter().any(|k| k.status == "known" && k.property == property && k.key.trim_end_matches('*').starts_with(prefix))
}

#[derive(Clone, Debug, Serialize, Deserialize)]
pub struct ReplayFile {
    pub property: String,
    pub scenario: String,
    pub engine: String,
    pub params: Value,
    pub decisions: Vec<u8>,
    pub violation: Violation,
    pub verif_seed: u64,
    pub run_index: u64,
    pub repo_commit: String,
    pub minimised_from: Value,
    #[serde(default)]
    pub trace: Vec<String>,
}

pub struct Found<P> {
    pub params: P,
    pub out: RunOut,
    pub violation: Violation,
    pub run_index: u64,
}

pub struct BatchStats {
    pub evaluations: u64,
    pub steps: u64,
    pub switches: u64,
    pub preempted_runs: u64,
    pub nontrivial_runs: u64,
    pub distinct: HashSet<u64>,
    pub faults: BTreeMap<String, u64>,
    pub probes: BTreeMap<String, u64>,
    pub sim_time_ns: u64,
    pub aborted_runs: u64,
    pub policy_runs: BTreeMap<String, u64>,
    pub samples: Vec<Value>,
    pub harness_errors: Vec<String>,
    pub violation_hits: BTreeMap<String, u64>,
    /// violations of *other* properties seen while running this property's scenarios (not reported here: their own checks decide them)
    pub incidental: BTreeMap<String, u64>,
    /// hits per known-finding pattern
    pub known_hits: BTreeMap<String, u64>,
}

impl BatchStats {
    fn new() -> Self {
        BatchStats {
            evaluations: 0,
            steps: 0,
            switches: 0,
            preempted_runs: 0,
            nontrivial_runs: 0,
            distinct: HashSet::new(),
            faults: BTreeMap::new(),
            probes: BTreeMap::new(),
            sim_time_ns: 0,
            aborted_runs: 0,
            policy_runs: BTreeMap::new(),
            samples: vec![],
            harness_errors: vec![],
            violation_hits: BTreeMap::new(),
            incidental: BTreeMap::new(),
            known_hits: BTreeMap::new(),
        }
    }
    fn merge(&mut self, o: BatchStats) {
        self.evaluations += o.evaluations;
        self.steps += o.steps;
        self.switches += o.switches;
        self.preempted_runs += o.preempted_runs;
        self.nontrivial_runs += o.nontrivial_runs;
        self.distinct.extend(o.distinct);
        for (k, v) in o.faults {
            *self.faults.entry(k).or_insert(0) += v;
        }
        for (k, v) in o.probes {
            *self.probes.entry(k).or_insert(0) += v;
        }
        self.sim_time_ns += o.sim_time_ns;
        self.aborted_runs += o.aborted_runs;
        for (k, v) in o.policy_runs {
            *self.policy_runs.entry(k).or_insert(0) += v;
        }
        for s in o.samples {
            if self.samples.len() < 4 {
                self.samples.push(s);
            }
        }
        for e in o.harness_errors {
            if self.harness_errors.len() < 10 {
                self.harness_errors.push(e);
            }
        }
        for (k, v) in o.violation_hits {
            *self.violation_hits.entry(k).or_insert(0) += v;
        }
        for (k, v) in o.incidental {
            *self.incidental.entry(k).or_insert(0) += v;
        }
        for (k, v) in o.known_hits {
            *self.known_hits.entry(k).or_insert(0) += v;
        }
    }
}

fn policy_name(p: &Policy) -> String {
    match p {
        Policy::Uniform => "uniform".into(),
        Policy::Sticky { stay } => format!("sticky{}", stay),
        Policy::Preempt { count, .. } => format!("preempt{}", count),
        Policy::Script => "script".into(),
    }
}

pub struct CheckCfg {
    pub verif_seed: u64,
    pub tier: Tier,
    pub budget: Duration,
    pub max_runs: u64,
    pub workers: usize,
}

impl CheckCfg {
    pub fn from_env(tier: Tier, quick_s: u64, thorough_s: u64) -> Self {
        let verif_seed = std::env::var("VERIF_SEED").ok().and_then(|s| s.parse::<u64>().ok()).unwrap_or(20260929);
        let budget_s = std::env::var("VERIF_BUDGET_S").ok().and_then(|s| s.parse::<u64>().ok()).unwrap_or(match tier {
            Tier::Quick => quick_s,
            Tier::Thorough => thorough_s,
        });
        let max_runs = std::env::var("VERIF_MAX_RUNS").ok().and_then(|s| s.parse::<u64>().ok()).unwrap_or(u64::MAX);
        let workers = std::env::var("VERIF_WORKERS").ok().and_then(|s| s.parse::<usize>().ok()).unwrap_or_else(|| std::thread::available_parallelism().map(|n| n.get()).unwrap_or(8).min(16));
        CheckCfg { verif_seed, tier, budget: Duration::from_secs(budget_s), max_runs, workers }
    }
}

/// "step_cap: run exceeded N scheduling points (task T in `op`)" with a non-empty op: the name of the library operation
/// (declared by the harness with `op_mark`) the task was inside when the cap was hit
pub fn livelocked_op(aborted: &str) -> Option<String> {
    if !aborted.starts_with("step_cap") && !aborted.starts_with("op_step_bound") {
        return None;
    }
    let start = aborted.find('`')? + 1;
    let end = aborted.rfind('`')?;
    if end <= start {
        return None;
    }
    Some(aborted[start..end].to_string())
}

/// harness-level problems in a run (never reported as violations)
fn harness_error_of(out: &RunOut, expected_abort_is_verdict: bool) -> Option<String> {
    if let Some(a) = &out.aborted {
        if a.starts_with("step_cap") && !expected_abort_is_verdict && livelocked_op(a).is_none() {
            return Some(a.clone());
        }
    }
    if let Some(p) = &out.panic {
        if p.contains("harness:") || p.contains("deadlock") || p.contains("scheduler called without") || p.contains("too many simulated tasks") {
            return Some(format!("panic: {}", p));
        }
    }
    None
}

pub struct BatchResult<P> {
    pub stats: BatchStats,
    pub found: Vec<Found<P>>,
    pub wall: Duration,
}

pub fn run_batch<S: Scenario>(scn: &Arc<S>, cfg: &CheckCfg, tag: &str, budget: Duration, known: &[KnownFinding]) -> BatchResult<S::P> {
    let known: Arc<Vec<KnownFinding>> = Arc::new(known.to_vec());
    let start = Instant::now();
    let counter = Arc::new(AtomicU64::new(0));
    let stop = Arc::new(AtomicBool::new(false));
    let found: Arc<Mutex<Vec<Found<S::P>>>> = Arc::new(Mutex::new(vec![]));
    let found_keys: Arc<Mutex<BTreeMap<String, u64>>> = Arc::new(Mutex::new(BTreeMap::new()));
    let mut handles = vec![];
    let skip_runs: Arc<Vec<u64>> = Arc::new(crate::crashlog::skip_list().into_iter().filter(|(part, _)| *part == crate::crashlog::CURRENT_PART.load(Ordering::Relaxed)).map(|(_, i)| i).collect());
    for worker_no in 0..cfg.workers {
        let skip_runs = Arc::clone(&skip_runs);
        let scn = Arc::clone(scn);
        let counter = Arc::clone(&counter);
        let stop = Arc::clone(&stop);
        let found = Arc::clone(&found);
        let found_keys = Arc::clone(&found_keys);
        let known = Arc::clone(&known);
        let verif_seed = cfg.verif_seed;
        let tier = cfg.tier;
        let max_runs = cfg.max_runs;
        let tag = tag.to_string();
        let key_limit: usize = if std::env::var_os("VERIF_SURVEY").is_some() { usize::MAX } else { 24 };
        handles.push(
            std::thread::Builder::new()
                .stack_size(8 << 20)
                .spawn(move || {
                    struct W<S: Scenario> {
                        stats: BatchStats,
                        current: Option<(u64, S::P)>,
                    }
                    let w: std::rc::Rc<std::cell::RefCell<W<S>>> = std::rc::Rc::new(std::cell::RefCell::new(W { stats: BatchStats::new(), current: None }));
                    let announce = std::env::var_os("VERIF_ANNOUNCE").is_some();
                    let only_index: Option<u64> = std::env::var("VERIF_ONLY_INDEX").ok().and_then(|s| s.parse().ok());
                    let crash_self_test: Option<u64> = std::env::var("VERIF_SELFTEST_CRASH_AT").ok().and_then(|s| s.parse().ok());
                    // ---- job source
                    let next_job = {
                        let (scn, counter, stop, tag) = (Arc::clone(&scn), Arc::clone(&counter), Arc::clone(&stop), tag.clone());
                        move || -> Option<(u64, S::P)> {
                            loop {
                                if stop.load(Ordering::Relaxed) {
                                    return None;
                                }
                                let idx = counter.fetch_add(1, Ordering::Relaxed);
                                if idx >= max_runs {
                                    return None;
                                }
                                if idx % 64 == 0 && start.elapsed() > budget {
                                    stop.store(true, Ordering::Relaxed);
                                    return None;
                                }
                                let idx = match only_index {
                                    Some(only) => {
                                        if idx > 0 {
                                            return None;
                                        }
                                        only
                                    }
                                    None => idx,
                                };
                                if only_index.is_none() && skip_runs.contains(&idx) {
                                    // known to kill the process (reported by the supervising parent): not executed again
                                    continue;
                                }
                                let mut rng = Rng::new(run_seed(verif_seed, &tag, idx));
                                let p = scn.generate(&mut rng, tier);
                                crate::crashlog::note(worker_no, idx, true);
                                if crash_self_test == Some(idx) {
                                    // self-test of the crash supervisor (VERIF_SELFTEST_CRASH_AT=<run index>): die like corrupted memory would
                                    unsafe { std::ptr::write_volatile(8 as *mut u8, 0) };
                                }
                                if announce {
                                    eprintln!("BEGIN {} {}", idx, serde_json::to_string(&p).unwrap_or_default());
                                }
                                return Some((idx, p));
                            }
                        }
                    };
                    // ---- outcome sink
                    let sink = {
                        let (scn, stop, found, found_keys, known) = (Arc::clone(&scn), Arc::clone(&stop), Arc::clone(&found), Arc::clone(&found_keys), Arc::clone(&known));
                        move |stats: &mut BatchStats, idx: u64, p: S::P, out: RunOut| {
                        stats.evaluations += 1;
                        stats.steps += out.steps;
                        stats.switches += out.switches as u64;
                        stats.sim_time_ns += out.sim_time_ns;
                        *stats.policy_runs.entry(policy_name(&scn.sched(&p).policy)).or_insert(0) += 1;
                        if out.preemptions > 0 {
                            stats.preempted_runs += 1;
                        }
                        if scn.nontrivial(&p, &out) {
                            stats.nontrivial_runs += 1;
                            stats.distinct.insert(scn.distinct_key(&p, &out));
                        }
                        if out.aborted.is_some() {
                            stats.aborted_runs += 1;
                        }
                        for (k, v) in &out.faults {
                            *stats.faults.entry(k.to_string()).or_insert(0) += v;
                        }
                        for (k, v) in &out.probes {
                            *stats.probes.entry(k.to_string()).or_insert(0) += v;
                        }
                        if stats.samples.len() < 1 && (out.switches > 2 || (scn.engine() != "T" && scn.nontrivial(&p, &out))) {
                            stats.samples.push(json!({
                                "run_index": idx,
                                "params": serde_json::to_value(&p).unwrap_or(Value::Null),
                                "steps": out.steps,
                                "context_switches": out.switches,
                                "first_decisions": out.decisions.iter().take(40).collect::<Vec<_>>(),
                                "violations": out.violations.len(),
                            }));
                        }
                        let has_verdict = !out.violations.is_empty();
                        if let Some(e) = harness_error_of(&out, has_verdict) {
                            if stats.harness_errors.len() < 5 {
                                stats.harness_errors.push(format!("run {}: {} params={}", idx, e, serde_json::to_string(&p).unwrap_or_default()));
                            }
                        }
                        // a panic in the code under test that no oracle attributed: report it as a violation of the property
                        let mut violations: Vec<Violation> = out.violations.iter().filter(|v| v.property == scn.property()).cloned().collect();
                        for v in out.violations.iter().filter(|v| v.property != scn.property()) {
                            *stats.incidental.entry(format!("{}:{}", v.property, v.key)).or_insert(0) += 1;
                        }
                        // an operation of the code under test that does not return within the whole-run step cap although the
                        // scheduler is fair (starvation bound): a livelock / deadlock
                        if out.violations.is_empty() {
                            if let Some(a) = &out.aborted {
                                if let Some(op) = livelocked_op(a) {
                                    if scn.livelock_in_scope(&p, &op) {
                                        violations.push(Violation { property: scn.property().into(), oracle: "operation_never_returns".into(), key: format!("{}/livelock/{}{}", scn.name(), scn.key_context(&p), op), detail: a.clone() });
                                    } else {
                                        *stats.incidental.entry(format!("outside {}: {}/livelock/{}{}", scn.property(), scn.name(), scn.key_context(&p), op)).or_insert(0) += 1;
                                    }
                                }
                            }
                        }
                        if out.violations.is_empty() {
                            if let Some(pm) = &out.panic {
                                if pm.contains("Cannot allocate memory") {
                                    // the log channel could not map its file: address space used up by mappings that aborted
                                    // runs leaked on purpose -- an environment limit, not a behaviour of the code under test
                                    *stats.probes.entry("harness.runs_skipped.mmap_out_of_address_space".into()).or_insert(0) += 1;
                                } else if harness_error_of(&out, false).is_none() {
                                    violations.push(Violation { property: scn.property().into(), oracle: "panic".into(), key: panic_key(scn.name(), &scn.key_context(&p), pm), detail: pm.clone() });
                                }
                            }
                        }
                        if !violations.is_empty() {
                            let mut keys = found_keys.lock().unwrap();
                            for v in violations.iter() {
                                *stats.violation_hits.entry(v.key.clone()).or_insert(0) += 1;
                                if let Some(kf) = match_known(&known, v) {
                                    *stats.known_hits.entry(kf.key.clone()).or_insert(0) += 1;
                                    continue;
                                }
                                let n = keys.entry(v.key.clone()).or_insert(0);
                                *n += 1;
                                if *n <= 3 {
                                    let mut o = out.clone();
                                    o.violations = violations.clone();
                                    found.lock().unwrap().push(Found { params: p.clone(), out: o, violation: v.clone(), run_index: idx });
                                }
                            }
                            if keys.len() >= key_limit {
                                stop.store(true, Ordering::Relaxed);
                            }
                        }
                        }
                    };
                    if scn.engine() == "T" {
                        let (w1, w2) = (std::rc::Rc::clone(&w), std::rc::Rc::clone(&w));
                        let scn2 = Arc::clone(&scn);
                        let mut next_job = next_job;
                        let mut sink = sink;
                        crate::engine_t::run_stream(
                            Box::new(move || {
                                let (idx, p) = next_job()?;
                                let body = scn2.body(&p).expect("engine T scenario without body()");
                                let spec = scn2.sched(&p).clone();
                                w1.borrow_mut().current = Some((idx, p));
                                Some((spec, false, body))
                            }),
                            Box::new(move |out| {
                                let mut wb = w2.borrow_mut();
                                let (idx, p) = wb.current.take().expect("outcome without a job");
                                sink(&mut wb.stats, idx, p, out);
                            }),
                        );
                    } else {
                        let mut next_job = next_job;
                        let mut sink = sink;
                        while let Some((idx, p)) = next_job() {
                            let out = scn.execute(&p, false);
                            sink(&mut w.borrow_mut().stats, idx, p, out);
                        }
                    }
                    crate::crashlog::note(worker_no, 0, false);
                    let stats = std::mem::replace(&mut w.borrow_mut().stats, BatchStats::new());
                    stats
                })
                .unwrap(),
        );
    }
    let mut stats = BatchStats::new();
    for h in handles {
        match h.join() {
            Ok(s) => stats.merge(s),
            Err(_) => stats.harness_errors.push("a worker thread died".into()),
        }
    }
    let found = std::mem::take(&mut *found.lock().unwrap());
    BatchResult { stats, found, wall: start.elapsed() }
}

/// Each sampled run index is executed again (on another worker count: here, single-threaded in the main thread)
/// and its digest compared. A divergence is a harness error.
pub fn determinism_check<S: Scenario>(scn: &Arc<S>, cfg: &CheckCfg, tag: &str, samples: u64) -> Result<u64, String> {
    let mut checked = 0;
    let n_threads = 4usize;
    let indices: Vec<u64> = (0..samples).map(|i| i * 7 + 1).collect();
    // first pass: in parallel on a few threads; second pass: sequentially here
    let first: Arc<Mutex<BTreeMap<u64, u64>>> = Arc::new(Mutex::new(BTreeMap::new()));
    let mut hs = vec![];
    for w in 0..n_threads {
        let scn = Arc::clone(scn);
        let first = Arc::clone(&first);
        let idxs: Vec<u64> = indices.iter().copied().filter(|i| (*i as usize) % n_threads == w).collect();
        let tag = tag.to_string();
        let seed = cfg.verif_seed;
        let tier = cfg.tier;
        hs.push(std::thread::Builder::new().stack_size(8 << 20).spawn(move || {
            let skip = crate::crashlog::skip_list();
            for idx in idxs {
                if skip.contains(&(crate::crashlog::CURRENT_PART.load(Ordering::Relaxed), idx)) {
                    continue;
                }
                let mut rng = Rng::new(run_seed(seed, &tag, idx));
                let p = scn.generate(&mut rng, tier);
                crate::crashlog::note(32 + w, idx, true);
                let out = scn.execute(&p, false);
                crate::crashlog::note(32 + w, idx, false);
                first.lock().unwrap().insert(idx, out.digest());
            }
        }).unwrap());
    }
    for h in hs {
        h.join().map_err(|_| "determinism worker died".to_string())?;
    }
    let first = first.lock().unwrap().clone();
    let skip = crate::crashlog::skip_list();
    for idx in indices {
        if skip.contains(&(crate::crashlog::CURRENT_PART.load(Ordering::Relaxed), idx)) {
            continue;
        }
        let mut rng = Rng::new(run_seed(cfg.verif_seed, tag, idx));
        let p = scn.generate(&mut rng, cfg.tier);
        crate::crashlog::note(40, idx, true);
        let out = scn.execute(&p, false);
        if first.get(&idx) != Some(&out.digest()) {
            return Err(format!("run index {} is not deterministic (two executions of the same seed differ); params={}", idx, serde_json::to_string(&p).unwrap_or_default()));
        }
        // and the recorded decision log must replay to the same digest
        if scn.engine() == "T" && out.aborted.is_none() && out.panic.is_none() {
            let rp = scn.with_sched(&p, scn.sched(&p).replaying(out.decisions.clone()));
            let out2 = scn.execute(&rp, false);
            if out2.decisions != out.decisions || out2.violations.len() != out.violations.len() || out2.script_mismatch > 0 {
                return Err(format!("run index {}: replaying the recorded decision log does not reproduce the run (mismatches {}, {} vs {} decisions)", idx, out2.script_mismatch, out2.decisions.len(), out.decisions.len()));
            }
        }
        crate::crashlog::note(40, idx, false);
        checked += 1;
    }
    Ok(checked)
}

pub fn panic_key(scn_name: &str, context: &str, panic_message: &str) -> String {
    // keyed by where it panicked (file:line) rather than by the formatted message
    let site = panic_message.rsplit('@').next().unwrap_or("").trim();
    format!("{}/panic/{}{}", scn_name, context, site)
}

fn same_violation(out: &RunOut, key: &str, property: &str, scn_name: &str, context: &str) -> bool {
    if out.violations.iter().any(|v| v.key == key) {
        return true;
    }
    if out.violations.is_empty() {
        if let Some(op) = out.aborted.as_deref().and_then(livelocked_op) {
            if format!("{}/livelock/{}{}", scn_name, context, op) == key {
                return true;
            }
        }
    }
    // unattributed panic
    if out.violations.is_empty() {
        if let Some(pm) = &out.panic {
            let _ = property;
            return panic_key(scn_name, context, pm) == key;
        }
    }
    false
}

/// Delta-debugging style minimisation: simpler parameters, fewer preemptions, shorter script.
pub fn minimise<S: Scenario>(scn: &Arc<S>, f: &Found<S::P>, budget_runs: u64, deadline: Instant) -> (S::P, RunOut, Value) {
    if std::env::var_os("VERIF_NO_MINIMISE").is_some() {
        return (f.params.clone(), f.out.clone(), json!({"note": "not minimised (VERIF_NO_MINIMISE)"}));
    }
    let key = f.violation.key.clone();
    let prop = f.violation.property.clone();
    let mut best_p = f.params.clone();
    let mut best_out = f.out.clone();
    let mut runs = 0u64;
    let original = json!({"size": scn.size(&f.params), "decisions": f.out.decisions.len(), "context_switches": f.out.switches});
    let mut rng = Rng::new(0xD1CE ^ f.run_index);

    let try_params = |p: &S::P, rng: &mut Rng, runs: &mut u64, tries: u64| -> Option<(S::P, RunOut)> {
        for t in 0..tries {
            let mut spec = scn.sched(p).clone();
            spec.script.clear();
            spec.seed = rng.next();
            spec.policy = match t % 6 {
                0 => Policy::Preempt { horizon: 200, count: 0 },
                1 => Policy::Preempt { horizon: 60, count: 1 },
                2 => Policy::Preempt { horizon: 200, count: 1 },
                3 => Policy::Preempt { horizon: 200, count: 2 },
                4 => Policy::Sticky { stay: 900 },
                _ => Policy::Uniform,
            };
            let cand = scn.with_sched(p, spec);
            let out = scn.execute(&cand, false);
            *runs += 1;
            if same_violation(&out, &key, &prop, scn.name(), &scn.key_context(&cand)) {
                return Some((cand, out));
            }
        }
        None
    };

    // 1. simpler parameters
    let mut progress = true;
    while progress && runs < budget_runs && Instant::now() < deadline {
        progress = false;
        for cand in scn.shrink(&best_p) {
            if runs >= budget_runs || Instant::now() >= deadline {
                break;
            }
            // (a) same schedule script first (partial script semantics)
            let with_script = scn.with_sched(&cand, scn.sched(&cand).replaying(best_out.decisions.clone()));
            let out = scn.execute(&with_script, false);
            runs += 1;
            if same_violation(&out, &key, &prop, scn.name(), &scn.key_context(&with_script)) {
                best_p = with_script;
                best_out = out;
                progress = true;
                break;
            }
            // (b) a small search over low-preemption schedules
            if let Some((p, out)) = try_params(&cand, &mut rng, &mut runs, 36) {
                best_p = p;
                best_out = out;
                progress = true;
                break;
            }
        }
    }
    // 2. fewer preemptions
    'outer: for count in 0..=2u32 {
        if best_out.preemptions <= count {
            break;
        }
        for _ in 0..120 {
            if runs >= budget_runs + 400 || Instant::now() >= deadline {
                break 'outer;
            }
            let mut spec = scn.sched(&best_p).clone();
            spec.script.clear();
            spec.seed = rng.next();
            spec.stall = 0;
            spec.policy = Policy::Preempt { horizon: *rng.pick(&[30, 80, 200, 600]), count };
            let cand = scn.with_sched(&best_p, spec);
            let out = scn.execute(&cand, false);
            runs += 1;
            if same_violation(&out, &key, &prop, scn.name(), &scn.key_context(&cand)) && out.preemptions < best_out.preemptions {
                best_p = cand;
                best_out = out;
                break 'outer;
            }
        }
    }
    // 3. shortest script prefix that still reproduces (the rest: defaults)
    if scn.engine() == "T" {
        let full = best_out.decisions.clone();
        let (mut lo, mut hi) = (0usize, full.len());
        let mut best_script: Option<(Vec<u8>, RunOut)> = None;
        while lo < hi && runs < budget_runs + 600 && Instant::now() < deadline + Duration::from_secs(5) {
            let mid = (lo + hi) / 2;
            let cand = scn.with_sched(&best_p, scn.sched(&best_p).replaying(full[..mid].to_vec()));
            let out = scn.execute(&cand, false);
            runs += 1;
            if same_violation(&out, &key, &prop, scn.name(), &scn.key_context(&cand)) {
                hi = mid;
                best_script = Some((full[..mid].to_vec(), out));
            } else {
                lo = mid + 1;
            }
        }
        if let Some((script, out)) = best_script {
            best_p = scn.with_sched(&best_p, scn.sched(&best_p).replaying(script));
            best_out = out;
        }
    }
    let info = json!({"original": original, "minimiser_runs": runs, "final": {"size": scn.size(&best_p), "decisions": best_out.decisions.len(), "context_switches": best_out.switches, "preemptions": best_out.preemptions}});
    (best_p, best_out, info)
}

pub fn repo_commit() -> String {
    std::process::Command::new("git").args(["-C", "/repo", "rev-parse", "HEAD"]).output().ok().and_then(|o| String::from_utf8(o.stdout).ok()).map(|s| s.trim().to_string()).unwrap_or_default()
}

pub fn write_replay<S: Scenario>(scn: &Arc<S>, cfg: &CheckCfg, p: &S::P, out: &RunOut, v: &Violation, run_index: u64, info: Value, dir: &Path, name: &str) -> PathBuf {
    // re-run once with tracing on to get a readable event trace, following the recorded decisions exactly
    let rp = if scn.engine() == "T" { scn.with_sched(p, scn.sched(p).replaying(out.decisions.clone())) } else { p.clone() };
    let traced = scn.execute(&rp, true);
    let file = ReplayFile {
        property: v.property.clone(),
        scenario: scn.name().into(),
        engine: scn.engine().into(),
        params: serde_json::to_value(&rp).unwrap(),
        decisions: out.decisions.clone(),
        violation: v.clone(),
        verif_seed: cfg.verif_seed,
        run_index,
        repo_commit: repo_commit(),
        minimised_from: info,
        trace: traced.trace,
    };
    std::fs::create_dir_all(dir).ok();
    let path = dir.join(name);
    std::fs::write(&path, serde_json::to_string_pretty(&file).unwrap()).expect("cannot write replay file");
    path
}

/// Replays a file; returns Ok(true) if the recorded violation is reproduced.
pub fn replay<S: Scenario>(scn: &Arc<S>, file: &ReplayFile, verbose: bool) -> Result<bool, String> {
    let p: S::P = serde_json::from_value(file.params.clone()).map_err(|e| format!("bad params in replay file: {}", e))?;
    let out = scn.execute(&p, verbose);
    if verbose {
        for l in &out.trace {
            println!("{}", l);
        }
        for v in &out.violations {
            println!("violation: {} [{}] {}", v.oracle, v.key, v.detail);
        }
        if let Some(p) = &out.panic {
            println!("panic: {}", p);
        }
        if let Some(a) = &out.aborted {
            println!("aborted: {}", a);
        }
    }
    if scn.engine() == "T" && out.script_mismatch > 0 {
        return Err(format!("the code asked for {} decisions the replay file does not explain", out.script_mismatch));
    }
    Ok(same_violation(&out, &file.violation.key, &file.violation.property, scn.name(), &scn.key_context(&p)))
}

pub fn sanitize(s: &str) -> String {
    s.chars().map(|c| if c.is_ascii_alphanumeric() || c == '.' || c == '-' { c } else { '_' }).take(80).collect()
}

pub struct Outcome {
    pub exit_code: i32,
}

/// The whole check for one property made of one scenario: determinism self-check, batch, triage, evidence.
pub fn check_scenarios(property: &str, cfg: &CheckCfg, parts: Vec<Box<dyn PartRunner>>, level_rule: &str, extra_assumptions: Vec<String>, also_checked_build: bool) -> Outcome {
    // a run on behalf of another run of the same check (its evidence goes to `<id>.<tag>.json` and is folded into the parent's):
    // the overflow-checked build (VERIF_CHILD) or the AddressSanitizer build (VERIF_EVIDENCE_TAG=asan-build)
    let evidence_tag: Option<String> = std::env::var("VERIF_EVIDENCE_TAG").ok().or_else(|| std::env::var_os("VERIF_CHILD").map(|_| "checked-build".to_string()));
    let is_child = evidence_tag.is_some();
    let start = Instant::now();
    let known = load_known_findings();
    let root = verif_root();
    let replay_dir = root.join("replays");
    let mut total = BatchStats::new();
    let mut violations_new: Vec<(Violation, PathBuf)> = vec![];
    let mut known_hit: BTreeMap<String, (KnownFinding, u64)> = BTreeMap::new();
    let mut components = vec![];
    let mut assumptions = extra_assumptions;
    let mut determinism_checked = 0u64;
    let n_parts = parts.len() as u32;
    let only_part: Option<usize> = std::env::var("VERIF_ONLY_PART").ok().and_then(|s| s.parse().ok());
    for (part_no, part) in parts.iter().enumerate() {
        if only_part.map(|o| o != part_no).unwrap_or(false) {
            continue;
        }
        crate::crashlog::CURRENT_PART.store(part_no, Ordering::Relaxed);
        let part_budget = cfg.budget / n_parts;
        let r = part.run(cfg, part_budget, &known, &replay_dir);
        determinism_checked += r.determinism_checked;
        total.merge(r.stats);
        for (v, path) in r.new_violations {
            violations_new.push((v, path));
        }
        for (k, (kf, n)) in r.known_hits {
            let e = known_hit.entry(k).or_insert((kf, 0));
            e.1 += n;
        }
        components.push(r.components);
        for a in r.assumptions {
            if !assumptions.contains(&a) {
                assumptions.push(a);
            }
        }
    }
    // ---- the same check again in the build with arithmetic-overflow checks and debug assertions (a child process)
    let mut child_report = Value::Null;
    let mut child_exit = 0;
    if also_checked_build && !is_child {
        let child = root.join("sim/target/checked/sim");
        if !child.exists() {
            total.harness_errors.push(format!("the overflow-checked build {} is missing", child.display()));
        } else {
            let out = std::process::Command::new(&child)
                .args(["check", property, cfg.tier.name()])
                .env("VERIF_CHILD", "1")
                .env("VERIF_SEED", cfg.verif_seed.to_string())
                .env("VERIF_BUDGET_S", (cfg.budget.as_secs() / 2).max(5).to_string())
                .output();
            match out {
                Ok(o) => {
                    child_exit = o.status.code().unwrap_or(2);
                    for line in String::from_utf8_lossy(&o.stdout).lines() {
                        if line.starts_with("VIOLATION") || line.starts_with("KNOWN-FINDING") || line.starts_with("  oracle=") {
                            println!("{}", line);
                        }
                    }
                    for line in String::from_utf8_lossy(&o.stderr).lines() {
                        if line.starts_with("HARNESS-ERROR") {
                            eprintln!("{} (overflow-checked build)", line);
                        }
                    }
                    child_report = std::fs::read_to_string(root.join("evidence").join(format!("{}.checked-build.json", property))).ok().and_then(|t| serde_json::from_str(&t).ok()).unwrap_or(Value::Null);
                }
                Err(e) => total.harness_errors.push(format!("cannot run the overflow-checked build: {}", e)),
            }
        }
    }
    // ---- thorough tier of C05: the same seeded histories (engine H part only: coroutine stack switching confuses the
    // sanitizer) executed by the AddressSanitizer build, the sanitizer being the oracle for "freed memory was touched". A report
    // aborts the worker process; the supervisor of that build attributes it to its run, confirms it alone and reports it.
    let mut asan_report = Value::Null;
    let mut asan_exit = 0;
    if !is_child && cfg.tier == Tier::Thorough {
        if let Some(asan_bin) = std::env::var_os("VERIF_ASAN_BIN") {
            if std::path::Path::new(&asan_bin).exists() {
                let out = std::process::Command::new(&asan_bin)
                    .args(["check", property, cfg.tier.name()])
                    .env("VERIF_EVIDENCE_TAG", "asan-build")
                    .env("VERIF_ONLY_PART", "0")
                    .env("ASAN_OPTIONS", "abort_on_error=1:detect_leaks=0:halt_on_error=1")
                    .env("VERIF_SEED", cfg.verif_seed.to_string())
                    .env("VERIF_BUDGET_S", (cfg.budget.as_secs() / 3).max(10).to_string())
                    .output();
                match out {
                    Ok(o) => {
                        asan_exit = o.status.code().unwrap_or(2);
                        for line in String::from_utf8_lossy(&o.stdout).lines() {
                            if line.starts_with("VIOLATION") || line.starts_with("KNOWN-FINDING") || line.starts_with("  oracle=") {
                                println!("{}", line);
                            }
                        }
                        for line in String::from_utf8_lossy(&o.stderr).lines() {
                            if line.starts_with("HARNESS-ERROR") {
                                eprintln!("{} (AddressSanitizer build)", line);
                            }
                        }
                        asan_report = std::fs::read_to_string(root.join("evidence").join(format!("{}.asan-build.json", property))).ok().and_then(|t| serde_json::from_str(&t).ok()).unwrap_or(Value::Null);
                    }
                    Err(e) => total.harness_errors.push(format!("cannot run the AddressSanitizer build: {}", e)),
                }
            }
        }
    }
    let wall = start.elapsed().as_secs_f64();
    // ---- output
    for (_, (kf, n)) in known_hit.iter() {
        println!("KNOWN-FINDING: property={} {} -- {} (hit {} times in this run)", kf.property, kf.key, kf.what, n);
    }
    for (v, path) in violations_new.iter() {
        println!("VIOLATION property={} replay={}", v.property, path.display());
        println!("  oracle={} key={} :: {}", v.oracle, v.key, v.detail);
    }
    let harness_failed = !total.harness_errors.is_empty();
    for e in total.harness_errors.iter() {
        eprintln!("HARNESS-ERROR: {}", e);
    }
    let zero_probes: Vec<&String> = total.probes.iter().filter(|(_, v)| **v == 0).map(|(k, _)| k).collect();
    let runs_per_hour = if wall > 0.0 { (total.evaluations as f64 / wall * 3600.0) as u64 } else { 0 };
    let evidence = json!({
        "property_id": property,
        "tier": cfg.tier.name(),
        "seed": cfg.verif_seed,
        "level": "exploration",
        "coverage": {
            "evaluations": total.evaluations,
            "distinct_nontrivial": total.distinct.len(),
            "rule": level_rule,
            "samples": total.samples,
            "simulated_runs": total.evaluations,
            "runs_per_hour": runs_per_hour,
            "scheduling_points_executed": total.steps,
            "context_switches": total.switches,
            "runs_with_a_preemption_inside_an_operation": total.preempted_runs,
            "nontrivial_runs": total.nontrivial_runs,
            "simulated_time_ms": total.sim_time_ns / 1_000_000,
            "fault_fire_counts": total.faults,
            "reach_probes": total.probes,
            "probes_stuck_at_zero": zero_probes,
            "scheduling_policies": total.policy_runs,
            "runs_aborted_by_a_verdict_or_cap": total.aborted_runs,
            "determinism_rechecked_runs": determinism_checked,
            "worker_threads": cfg.workers,
            "violation_key_hits": total.violation_hits,
            "incidental_hits_of_other_properties_oracles": total.incidental,
            "known_findings_hit": known_hit.iter().map(|(k, (_, n))| (k.clone(), *n)).collect::<BTreeMap<_, _>>(),
            "components": components,
            "overflow_checked_build_run": child_report.get("coverage").cloned().unwrap_or(Value::Null),
            "address_sanitizer_build_run": asan_report.get("coverage").cloned().unwrap_or(Value::Null),
            "exhaustive": false,
        },
        "assumptions": assumptions,
        "wall_s": wall,
        "violations": violations_new.len(),
    });
    let ev_dir = root.join("evidence");
    std::fs::create_dir_all(&ev_dir).ok();
    if std::env::var_os("VERIF_NO_EVIDENCE").is_none() {
    std::fs::write(ev_dir.join(match &evidence_tag { Some(tag) => format!("{}.{}.json", property, tag), None => format!("{}.json", property) }), serde_json::to_string_pretty(&evidence).unwrap()).expect("cannot write evidence");
    }
    println!(
        "{} {}: {} runs, {} distinct non-trivial, {} sched points, {} known-finding keys, {} new violations, {:.1}s",
        property,
        cfg.tier.name(),
        total.evaluations,
        total.distinct.len(),
        total.steps,
        known_hit.len(),
        violations_new.len(),
        wall
    );
    let exit_code = if !violations_new.is_empty() || child_exit == 1 || asan_exit == 1 {
        1
    } else if child_exit == 2 || asan_exit == 2 {
        2
    } else if harness_failed {
        2
    } else {
        0
    };
    Outcome { exit_code }
}

pub struct PartResult {
    pub stats: BatchStats,
    pub new_violations: Vec<(Violation, PathBuf)>,
    pub known_hits: BTreeMap<String, (KnownFinding, u64)>,
    pub determinism_checked: u64,
    pub components: Value,
    pub assumptions: Vec<String>,
}

/// type-erased scenario runner (one property check may be made of several scenarios)
pub trait PartRunner {
    fn run(&self, cfg: &CheckCfg, budget: Duration, known: &[KnownFinding], replay_dir: &Path) -> PartResult;
    fn name(&self) -> &'static str;
    fn property(&self) -> &'static str;
    fn replay_file(&self, file: &ReplayFile, verbose: bool) -> Result<bool, String>;
    /// (parameters of run `idx`, key context) -- for runs the supervisor reports without having their outcome (process crashes)
    fn params_of(&self, cfg: &CheckCfg, idx: u64) -> (Value, String);
    fn engine(&self) -> &'static str;
    /// executes the run described by a replay file's parameters in this process (the caller watches for its death)
    fn execute_params(&self, params: &Value) -> Result<(), String>;
}

pub struct Part<S: Scenario>(pub Arc<S>);

impl<S: Scenario> PartRunner for Part<S> {
    fn name(&self) -> &'static str {
        self.0.name()
    }
    fn property(&self) -> &'static str {
        self.0.property()
    }
    fn replay_file(&self, file: &ReplayFile, verbose: bool) -> Result<bool, String> {
        replay(&self.0, file, verbose)
    }
    fn params_of(&self, cfg: &CheckCfg, idx: u64) -> (Value, String) {
        let tag = format!("{}/{}", self.0.property(), self.0.name());
        let mut rng = Rng::new(run_seed(cfg.verif_seed, &tag, idx));
        let p = self.0.generate(&mut rng, cfg.tier);
        (serde_json::to_value(&p).unwrap_or(Value::Null), self.0.key_context(&p))
    }
    fn engine(&self) -> &'static str {
        self.0.engine()
    }
    fn execute_params(&self, params: &Value) -> Result<(), String> {
        let p: S::P = serde_json::from_value(params.clone()).map_err(|e| format!("bad params in replay file: {}", e))?;
        let _ = self.0.execute(&p, false);
        Ok(())
    }
    fn run(&self, cfg: &CheckCfg, budget: Duration, known: &[KnownFinding], replay_dir: &Path) -> PartResult {
        let scn = &self.0;
        let tag = format!("{}/{}", scn.property(), scn.name());
        let mut stats = BatchStats::new();
        // 1. prove determinism first
        let det_samples = match cfg.tier {
            Tier::Quick => 48,
            Tier::Thorough => 400,
        };
        let det_samples = if std::env::var_os("VERIF_SKIP_DET").is_some() { 0 } else { det_samples };
        let determinism_checked = match determinism_check(scn, cfg, &tag, det_samples) {
            Ok(n) => n,
            Err(e) => {
                stats.harness_errors.push(format!("determinism: {}", e));
                0
            }
        };
        // 2. the search
        let r = run_batch(scn, cfg, &tag, budget, known);
        stats.merge(r.stats);
        // 3. triage
        let mut new_violations = vec![];
        let mut known_hits: BTreeMap<String, (KnownFinding, u64)> = BTreeMap::new();
        for (k, n) in stats.known_hits.iter() {
            if let Some(kf) = known.iter().find(|kf| &kf.key == k) {
                known_hits.insert(k.clone(), (kf.clone(), *n));
            }
        }
        let mut seen_new: HashSet<String> = HashSet::new();
        let survey = std::env::var_os("VERIF_SURVEY").is_some();
        for f in r.found.iter() {
            if let Ok(only) = std::env::var("VERIF_ONLY_GLOB") {
                if !glob_match(&only, &f.violation.key) {
                    continue;
                }
            } else if let Ok(only) = std::env::var("VERIF_ONLY_KEY") {
                if !f.violation.key.contains(&only) {
                    continue;
                }
            } else if survey {
                break;
            }
            if match_known(known, &f.violation).is_some() {
                continue;
            }
            if !seen_new.insert(f.violation.key.clone()) {
                continue;
            }
            // minimise (time-boxed), re-record, confirm in a fresh process
            let minimise_s = if std::env::var_os("VERIF_NO_MINIMISE").is_some() { 0 } else if seen_new.len() <= 4 { 12 } else if seen_new.len() <= 12 { 3 } else { 0 };
            let (p, out, info) = minimise(scn, f, 1500, Instant::now() + Duration::from_secs(minimise_s));
            let v = out.violations.iter().find(|v| v.key == f.violation.key).cloned().unwrap_or_else(|| f.violation.clone());
            let name = format!("{}-{}-{}.json", scn.property(), sanitize(&v.key), f.run_index);
            let path = write_replay(scn, cfg, &p, &out, &v, f.run_index, info, replay_dir, &name);
            let confirmed = confirm_in_fresh_process(&path);
            if confirmed {
                new_violations.push((v, path));
            } else {
                // fall back to the unminimised run
                let name = format!("{}-{}-{}-orig.json", scn.property(), sanitize(&f.violation.key), f.run_index);
                let path2 = write_replay(scn, cfg, &f.params, &f.out, &f.violation, f.run_index, json!({"note": "minimised form did not reproduce in a fresh process; this is the original run"}), replay_dir, &name);
                if confirm_in_fresh_process(&path2) {
                    new_violations.push((f.violation.clone(), path2));
                } else {
                    stats.harness_errors.push(format!("violation {} could not be reproduced from its replay file {} (not reported as a violation)", f.violation.key, path2.display()));
                }
            }
        }
        PartResult { stats, new_violations, known_hits, determinism_checked, components: scn.components(), assumptions: scn.assumptions() }
    }
}

pub fn confirm_in_fresh_process(path: &Path) -> bool {
    let exe = std::env::current_exe().unwrap();
    match std::process::Command::new(exe).arg("replay").arg(path).arg("--quiet").status() {
        Ok(st) => st.code() == Some(1),
        Err(_) => false,
    }
}
