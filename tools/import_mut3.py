#!/usr/bin/env python3
"""tools/import_mut3.py <Cxx> <n> "<needs to manifest>" -- copies a sub-agent's confirmed seeded change from its scratch worktree
/tmp/mut7/<Cxx>/_out (after tools/handle_mut3.sh confirmed and swept it) into /verif/seeded/<Cxx>-<n>/"""
import json, os, shutil, sys, re
P, N, needs = sys.argv[1], sys.argv[2], sys.argv[3]
src = f'/tmp/mut7/{P}/_out'
dst = f'/verif/seeded/{P}-{N}'
confirm = json.load(open(f'{src}/{P}.confirm.json'))
ok = confirm['demo_without_patch_exit'] == 0 and confirm['demo_with_patch_exit'] != 0 and \
     set(filter(None, confirm['suite_failures_with_patch'].split(';'))) <= {'ogre_std::ogre_queues::full_sync::non_blocking_queue::tests::peek_test', 'src/lib.rs - (line 33)'}
if not ok:
    print('NOT CONFIRMED', confirm); sys.exit(1)
os.makedirs(dst, exist_ok=True)
shutil.copy(f'{src}/{P}.patch.diff', f'{dst}/patch.diff')
shutil.copy(f'{src}/{P}.demo.rs', f'{dst}/demo.rs')
sweep = [l.strip() for l in open(f'{src}/handle.log') if l.startswith('SWEEP')]
notes = open(f'{src}/{P}.notes.md').read()
meta = {
  "property": P, "seeded_change": f"{P}-{N}", "breaks": P,
  "needs_to_manifest": needs,
  "confirmed": {"how": "tools/confirm_mut3.sh in the sub-agent's scratch worktree /tmp/mut7/%s: the demonstration passes without the change and fails with it; `cargo test --workspace --no-fail-fast --offline` with the change shows only the two baseline failures" % P, **confirm},
  "checks_run": "; ".join(sweep),
  "author_notes_excerpt": notes[:3500],
}
json.dump(meta, open(f'{dst}/meta.json', 'w'), indent=1)
print('imported', dst, '|', meta['checks_run'][:300])
