//! `close_conc` (engine T, C06): `gracefully_end_all_streams(no timeout)` issued on one simulated thread while the
//! channel's streams are driven, executor-like, on other simulated threads -- the "consumers on other threads" part of
//! the property, which engine D's single-threaded runtime cannot produce. Producers have all returned before the call
//! (the property speaks about events accepted *before* the call); at that moment events sit in the buffer, in the hands
//! of a driver that is still "processing" them (holding the handle for a while), or both, and drivers may be parked,
//! mid-poll or stalled. The 1 ms sleeps inside flush / end_all_streams are simulated time (`verif::sleep` seam).
//!
//! Oracle, evaluated by the calling thread right after the call returned (no scheduling point in between):
//!   * every accepted event has been yielded to -- and released by -- every stream entitled to it (Uni: one of the
//!     streams; Multi: every listener), i.e. nothing is left in the buffer or in a consumer's hands;
//!   * every stream has answered end-of-stream and has been dropped: `running_streams_count() == 0`,
//!     `is_channel_open() == false`, `pending_items_count() == 0`;
//!   * the call itself returns (a call that never returns is reported by the framework as a livelock of
//!     `gracefully_end_all_streams`), answering 0.
//! Later: nothing is yielded after the call returned, and no accepted event was discarded.

use crate::chan::{self, Kind};
use crate::ctx::{self, harness_point, SchedSpec};
use crate::engine_t::Body;
use crate::framework::{Scenario, Tier};
use crate::harness::{self, HLock};
use crate::payload::Tracked;
use crate::rng::Rng;
use crate::scn_uni::{driver_thread, producer_thread, ChanArc, DriverCfg, Entry, Ev, EvKind, Shared};
use serde::{Deserialize, Serialize};
use std::sync::Arc;
use std::time::Duration;

#[derive(Clone, Debug, Serialize, Deserialize)]
pub struct CloseParams {
    pub sched: SchedSpec,
    pub kind: Kind,
    pub buffer: usize,
    pub max_streams: usize,
    pub streams: usize,
    pub prefill: u32,
    pub producers: Vec<Vec<Entry>>,
    /// handles a driver keeps while it polls for the next item ("still processing")
    pub hold: u32,
    pub waker_churn: bool,
    /// harness-level scheduling points the closing thread lets pass (after the producers returned) before it calls
    pub delay: u32,
    /// producers are joined before the drivers are even started (everything is buffered when the close call comes)
    pub late_drivers: bool,
    /// `cancel_all_streams()` is called first (every stream is already told to end -- and may still be draining and
    /// processing -- when the graceful, unbounded call comes)
    #[serde(default)]
    pub pre_cancel: bool,
}

struct LogFileGuard(Option<String>);
impl Drop for LogFileGuard {
    fn drop(&mut self) {
        if let Some(n) = &self.0 {
            let _ = std::fs::remove_file(chan::mmap_log_path(n));
        }
    }
}

fn close_body(p: &CloseParams) {
    harness::reset();
    let kind = p.kind;
    let name = chan::scratch_log_name("close");
    let _guard = LogFileGuard(if kind == Kind::MultiMmapLog { Some(name.clone()) } else { None });
    let key = |oracle: &str| format!("close_conc/{}/{}", kind.name(), oracle);
    let ch: ChanArc = Arc::new(chan::make::<Tracked>(kind, p.buffer, p.max_streams, &name));
    let shared = Arc::new(HLock::new(Shared { events: vec![], drops: vec![], producers_active: p.producers.len() }));
    let mut streams = vec![];
    for _ in 0..p.streams {
        streams.push(ch.create_stream());
    }
    for i in 0..p.prefill {
        let id = crate::scn_uni::prefill_id(i);
        let inv = ctx::stamp();
        let accepted = ch.send(id).accepted();
        let ret = ctx::stamp();
        shared.lock().unwrap().events.push(Ev { thread: 0, kind: EvKind::SendOp(Entry::Send), id, inv, ret, accepted, ended: false, intact: true, setter_invoked_on_reject: false, addr: 0, wakes_delivered: 0, wake_misses: 0 });
    }
    let n_prod = p.producers.len();
    let mut prod_handles = vec![];
    for (t, ops) in p.producers.iter().enumerate() {
        let (ch2, shared2, ops2) = (Arc::clone(&ch), Arc::clone(&shared), ops.clone());
        prod_handles.push(shuttle::thread::spawn(move || producer_thread(ch2, shared2, t, ops2)));
    }
    if p.late_drivers {
        for h in prod_handles.drain(..) {
            let _ = h.join();
        }
    }
    let mut drivers = vec![];
    let mut handles = vec![];
    for (s, stream) in streams.into_iter().enumerate() {
        let d = harness::new_driver();
        drivers.push(d);
        let shared2 = Arc::clone(&shared);
        let cfg = DriverCfg { hold: p.hold, spurious_poll: 0, waker_churn: p.waker_churn };
        let thread_no = 1 + n_prod + s;
        handles.push(shuttle::thread::spawn(move || driver_thread(stream, shared2, d, thread_no, cfg)));
    }
    for h in prod_handles {
        let _ = h.join();
    }
    if ctx::aborted() {
        for d in drivers.iter() {
            harness::stop_driver(*d);
        }
        return;
    }
    for _ in 0..p.delay {
        harness_point();
    }
    // what the drivers had done when the call was issued (reach probes)
    {
        let sh = shared.lock().unwrap();
        let accepted = sh.events.iter().filter(|e| matches!(e.kind, EvKind::SendOp(_)) && e.accepted).count();
        let yielded = sh.events.iter().filter(|e| e.kind == EvKind::Poll && e.accepted).count();
        let released = sh.events.iter().filter(|e| e.kind == EvKind::Release).count();
        let expected = if kind.is_uni() { accepted } else { accepted * p.streams };
        ctx::with_ctx(|c| {
            *c.probes.entry("harness.close_conc.events_still_buffered_at_the_call").or_insert(0) += (yielded < expected) as u64;
            *c.probes.entry("harness.close_conc.events_in_a_consumers_hands_at_the_call").or_insert(0) += (released < yielded) as u64;
            *c.probes.entry("harness.close_conc.everything_already_processed_at_the_call").or_insert(0) += (accepted > 0 && released == expected) as u64;
        });
    }
    if p.pre_cancel {
        ctx::trace(|| "cancel_all_streams() first".to_string());
        ctx::fault_fired("streams_already_told_to_end_before_the_graceful_call");
        ctx::op_mark(ctx::intern(format!("{}:cancel_all_streams", kind.name())));
        ch.cancel_all();
        ctx::op_mark("");
        for _ in 0..(p.delay % 7) {
            harness_point();
        }
    }
    // ---- the call
    let call_inv = ctx::stamp();
    ctx::trace(|| "gracefully_end_all_streams(ZERO) called".to_string());
    ctx::op_mark(ctx::intern(format!("{}:gracefully_end_all_streams", kind.name())));
    let answer = harness::block_on_sim(ch.end_all(Duration::ZERO), |_| true);
    ctx::op_mark("");
    if ctx::aborted() {
        for d in drivers.iter() {
            harness::stop_driver(*d);
        }
        return;
    }
    // ---- the instant it returned: no scheduling point between the return and these reads (the harness lock is not one)
    let (running, open, pending) = (ch.running_streams(), ch.is_open(), ch.pending());
    let call_ret = ctx::stamp();
    ctx::trace(|| format!("gracefully_end_all_streams returned {:?}: running={} open={} pending={}", answer, running, open, pending));
    {
        let sh = shared.lock().unwrap();
        let accepted: Vec<&Ev> = sh.events.iter().filter(|e| matches!(e.kind, EvKind::SendOp(_)) && e.accepted).collect();
        let mut unprocessed = vec![];
        for s in 0..p.streams {
            let thread_no = 1 + n_prod + s;
            for e in accepted.iter() {
                let by_me = |k: &EvKind, y: &Ev| y.kind == *k && y.id == e.id && (kind.is_uni() || y.thread == thread_no);
                let yielded = sh.events.iter().any(|y| by_me(&EvKind::Poll, y) && y.accepted);
                let released = sh.events.iter().any(|y| by_me(&EvKind::Release, y));
                if !(yielded && released) {
                    unprocessed.push((s, e.id, yielded, released));
                }
            }
            if kind.is_uni() {
                break;
            }
        }
        if !unprocessed.is_empty() {
            ctx::report(
                "C06",
                "close_before_processed",
                key("close_before_processed"),
                format!("gracefully_end_all_streams(no timeout) returned {:?} while accepted events were not yet yielded to / released by every entitled stream: (stream, event, yielded, released) = {:x?}", answer, unprocessed),
            );
        }
        let not_ended: Vec<usize> = (0..p.streams).filter(|s| !sh.events.iter().any(|e| e.thread == 1 + n_prod + *s && e.kind == EvKind::Poll && e.ended)).collect();
        if !not_ended.is_empty() {
            ctx::report("C06", "stream_not_ended_after_close", key("stream_not_ended_after_close"), format!("gracefully_end_all_streams returned {:?}, but stream(s) {:?} have not answered end-of-stream", answer, not_ended));
        }
    }
    if answer != Some(0) {
        ctx::report("C06", "close_gave_up", key("close_gave_up"), format!("gracefully_end_all_streams(no timeout) answered {:?} (streams still running)", answer));
    }
    if running != 0 {
        ctx::report("C06", "streams_running_after_close", key("streams_running_after_close"), format!("running_streams_count() == {} right after gracefully_end_all_streams returned", running));
    }
    if open {
        ctx::report("C06", "channel_open_after_close", key("channel_open_after_close"), "is_channel_open() still answers true right after gracefully_end_all_streams returned".into());
    }
    if pending != 0 {
        ctx::report("C06", "pending_after_close", key("pending_after_close"), format!("pending_items_count() == {} right after gracefully_end_all_streams returned", pending));
    }
    // ---- afterwards: the drivers are all done (or parked for good); nothing more is yielded
    harness::wait_quiescent(&drivers);
    for d in drivers.iter() {
        harness::stop_driver(*d);
    }
    for h in handles {
        let _ = h.join();
    }
    if ctx::aborted() {
        return;
    }
    let sh = shared.lock().unwrap();
    if let Some(late) = sh.events.iter().find(|e| e.kind == EvKind::Poll && e.accepted && e.ret > call_ret) {
        ctx::report("C06", "yielded_after_close_returned", key("yielded_after_close_returned"), format!("event {:#x} was yielded (stamp {}) after gracefully_end_all_streams had returned (stamp {})", late.id, late.ret, call_ret));
    }
    let _ = call_inv;
}

pub struct CloseConc;

impl Scenario for CloseConc {
    type P = CloseParams;
    fn property(&self) -> &'static str {
        "C06"
    }
    fn name(&self) -> &'static str {
        "close_conc"
    }
    fn engine(&self) -> &'static str {
        "T"
    }
    fn generate(&self, rng: &mut Rng, _tier: Tier) -> CloseParams {
        let kind = *rng.pick(&[
            Kind::UniMoveAtomic,
            Kind::UniMoveFullSync,
            Kind::UniMoveCrossbeam,
            Kind::UniZcAtomic,
            Kind::UniZcFullSync,
            Kind::MultiArcAtomic,
            Kind::MultiArcFullSync,
            Kind::MultiArcCrossbeam,
            Kind::MultiOgreAtomic,
            Kind::MultiOgreFullSync,
            Kind::MultiMmapLog,
        ]);
        let buffer = *rng.pick(&chan::BUFFERS);
        let max_streams = *rng.pick(&chan::STREAMS);
        let streams = 1 + rng.below(max_streams.min(3) as u64) as usize;
        // never more than BUFFER_SIZE - 1 events in total: nobody ever waits for room
        let budget = if kind == Kind::MultiMmapLog { 6 } else { buffer - 1 };
        let total = rng.below(budget as u64 + 1) as usize;
        let prefill = rng.below(total as u64 + 1) as u32;
        let mut left = total - prefill as usize;
        let n_prod = if left == 0 { 0 } else { 1 + rng.below(2) as usize };
        let mut producers: Vec<Vec<Entry>> = (0..n_prod).map(|_| vec![]).collect();
        while left > 0 {
            let t = rng.below(n_prod as u64) as usize;
            let e = if kind.is_uni() { crate::scn_uni::draw_entry(rng, kind) } else { crate::scn_multi::draw_multi_entry(rng, kind) };
            let e = if kind == Kind::MultiMmapLog { *rng.pick(&[Entry::Send, Entry::SendWith]) } else { e };
            producers[t].push(e);
            left -= 1;
        }
        producers.retain(|o| !o.is_empty());
        let mut sched = SchedSpec::draw(rng);
        if kind != Kind::MultiMmapLog && rng.chance(1, 8) {
            sched.origin = u32::MAX - rng.below(3 * buffer as u64 + 2) as u32;
        }
        CloseParams { sched, kind, buffer, max_streams, streams, prefill, producers, hold: *rng.pick(&[0, 0, 1, 2]), waker_churn: rng.chance(1, 4), delay: *rng.pick(&[0, 0, 0, 1, 3, 8, 20, 60]), late_drivers: rng.chance(1, 3), pre_cancel: rng.chance(1, 4) }
    }
    fn sched<'a>(&self, p: &'a CloseParams) -> &'a SchedSpec {
        &p.sched
    }
    fn with_sched(&self, p: &CloseParams, s: SchedSpec) -> CloseParams {
        let mut q = p.clone();
        q.sched = s;
        q
    }
    fn body(&self, p: &CloseParams) -> Option<Body> {
        let p2 = p.clone();
        Some(Arc::new(move || close_body(&p2)))
    }
    fn shrink(&self, p: &CloseParams) -> Vec<CloseParams> {
        let mut out = vec![];
        for i in 0..p.producers.len() {
            let mut q = p.clone();
            q.producers.remove(i);
            out.push(q);
        }
        for i in 0..p.producers.len() {
            if p.producers[i].len() > 1 {
                for j in (0..p.producers[i].len()).rev() {
                    let mut q = p.clone();
                    q.producers[i].remove(j);
                    out.push(q);
                }
            }
        }
        if p.prefill > 0 {
            let mut q = p.clone();
            q.prefill -= 1;
            out.push(q);
        }
        if p.streams > 1 {
            let mut q = p.clone();
            q.streams -= 1;
            out.push(q);
        }
        if p.delay > 0 {
            let mut q = p.clone();
            q.delay /= 2;
            out.push(q);
        }
        if p.hold > 0 {
            let mut q = p.clone();
            q.hold -= 1;
            out.push(q);
        }
        if p.waker_churn {
            let mut q = p.clone();
            q.waker_churn = false;
            out.push(q);
        }
        if p.late_drivers {
            let mut q = p.clone();
            q.late_drivers = false;
            out.push(q);
        }
        if p.pre_cancel {
            let mut q = p.clone();
            q.pre_cancel = false;
            out.push(q);
        }
        if p.sched.weak_cas > 0 || p.sched.stall > 0 {
            let mut q = p.clone();
            q.sched.weak_cas = 0;
            q.sched.stall = 0;
            out.push(q);
        }
        if p.sched.origin != 0 {
            let mut q = p.clone();
            q.sched.origin = 0;
            out.push(q);
        }
        out
    }
    fn size(&self, p: &CloseParams) -> u64 {
        p.producers.iter().map(|o| o.len() as u64).sum::<u64>() * 4 + p.streams as u64 * 2 + p.prefill as u64 + p.delay as u64 / 8 + p.hold as u64
    }
    fn key_context(&self, p: &CloseParams) -> String {
        format!("{}/", p.kind.name())
    }
    fn assumptions(&self) -> Vec<String> {
        vec![
            "sequential consistency at the instrumented atomics; the plain shared cells (keep_streams_running[], wakers[], used_streams[]) interleave at the instrumented yield points, whole accesses only".into(),
            "executor model: a stream is re-polled iff its waker was invoked; a consumer processes one item after the other and drops its stream when it answers end-of-stream".into(),
            "every producer has returned before gracefully_end_all_streams is called (the property speaks about events accepted before the call); fewer events than BUFFER_SIZE in total".into(),
            "the 1 ms sleeps inside flush / end_all_streams are simulated time (verif::sleep seam)".into(),
        ]
    }
}
