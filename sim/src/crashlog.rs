//! Crash attribution. The code under test is `unsafe`-heavy: a defect (or a seeded change) can corrupt memory and kill the
//! whole process with SIGSEGV / SIGABRT instead of producing a verdict. Every worker therefore records, in a shared
//! file mapping (which survives the death of the process), which run it is executing; a supervising parent process reads
//! it after a crash, re-runs each candidate alone in a fresh process, and reports the ones that die again as violations.

use std::sync::atomic::{AtomicPtr, AtomicUsize, Ordering};

pub const SLOTS: usize = 64;
const SLOT_BYTES: usize = 24;

static MAP: AtomicPtr<u8> = AtomicPtr::new(std::ptr::null_mut());
pub static CURRENT_PART: AtomicUsize = AtomicUsize::new(0);

/// child side: map the file named by VERIF_CRASHLOG (if any)
pub fn open_from_env() {
    let Some(path) = std::env::var_os("VERIF_CRASHLOG") else { return };
    let Ok(cpath) = std::ffi::CString::new(path.to_string_lossy().as_bytes()) else { return };
    unsafe {
        let fd = libc::open(cpath.as_ptr(), libc::O_RDWR);
        if fd < 0 {
            return;
        }
        let p = libc::mmap(std::ptr::null_mut(), SLOTS * SLOT_BYTES, libc::PROT_READ | libc::PROT_WRITE, libc::MAP_SHARED, fd, 0);
        libc::close(fd);
        if p != libc::MAP_FAILED {
            MAP.store(p as *mut u8, Ordering::Relaxed);
        }
    }
}

/// records that `slot` is about to execute run `idx` of part `part` (busy = false: it has finished it)
#[inline]
pub fn note(slot: usize, idx: u64, busy: bool) {
    let p = MAP.load(Ordering::Relaxed);
    if p.is_null() || slot >= SLOTS {
        return;
    }
    unsafe {
        let base = p.add(slot * SLOT_BYTES) as *mut u64;
        std::ptr::write_volatile(base, if busy { 1 } else { 0 });
        std::ptr::write_volatile(base.add(1), CURRENT_PART.load(Ordering::Relaxed) as u64);
        std::ptr::write_volatile(base.add(2), idx);
    }
}

/// parent side: creates the (zeroed) file
pub fn create(path: &std::path::Path) -> std::io::Result<()> {
    std::fs::write(path, vec![0u8; SLOTS * SLOT_BYTES])
}

/// parent side: (part, idx) of every slot that was busy when the child died
pub fn read_busy(path: &std::path::Path) -> Vec<(usize, u64)> {
    let Ok(bytes) = std::fs::read(path) else { return vec![] };
    let mut out = vec![];
    for s in 0..SLOTS {
        let at = s * SLOT_BYTES;
        if bytes.len() < at + SLOT_BYTES {
            break;
        }
        let w = |k: usize| u64::from_le_bytes(bytes[at + 8 * k..at + 8 * k + 8].try_into().unwrap());
        if w(0) == 1 {
            let e = (w(1) as usize, w(2));
            if !out.contains(&e) {
                out.push(e);
            }
        }
    }
    out
}

/// parent side: (slot, part, idx) of every slot that is busy right now
pub fn read_busy_slots(path: &std::path::Path) -> Vec<(usize, usize, u64)> {
    let Ok(bytes) = std::fs::read(path) else { return vec![] };
    let mut out = vec![];
    for s in 0..SLOTS {
        let at = s * SLOT_BYTES;
        if bytes.len() < at + SLOT_BYTES {
            break;
        }
        let w = |k: usize| u64::from_le_bytes(bytes[at + 8 * k..at + 8 * k + 8].try_into().unwrap());
        if w(0) == 1 {
            out.push((s, w(1) as usize, w(2)));
        }
    }
    out
}

/// runs named by VERIF_SKIP_RUNS ("part:idx,part:idx") are not executed (they are known to kill the process)
pub fn skip_list() -> Vec<(usize, u64)> {
    std::env::var("VERIF_SKIP_RUNS")
        .ok()
        .map(|s| s.split(',').filter_map(|e| e.split_once(':').and_then(|(a, b)| Some((a.parse().ok()?, b.parse().ok()?)))).collect())
        .unwrap_or_default()
}
