#!/bin/bash
# tools/sweep_one.sh <patch.diff> <label> <budget_s|-> <Cxx> [<Cxx> ...]
# Triage helper (never a registered check): runs the quick checks of the listed properties against a seeded change
# WITHOUT touching /repo or /verif: a scratch git worktree of /repo gets the patch, a scratch copy of /verif's simulator
# sources (shadow manifest re-pointed at the worktree) is built in its own target dir, and the checks run with VERIF_ROOT
# set to the scratch copy. Everything is removed afterwards. Prints one line per property:
#   SWEEP <label> <Cxx> exit=<n> keys=<violation keys, comma separated>
PATCH="$(readlink -f "$1")"; LABEL="$2"; BUDGET="$3"; shift 3
S=/tmp/sw/$LABEL
rm -rf "$S"; mkdir -p "$S/verif" || exit 2
git -C /repo worktree add --detach -q "$S/repo" HEAD || exit 2
cleanup() { [ -n "$SWEEP_KEEP" ] && return; git -C /repo worktree remove --force "$S/repo" 2>/dev/null; rm -rf "$S"; }
trap cleanup EXIT
if [ "$PATCH" != "/dev/null" ]; then git -C "$S/repo" apply "$PATCH" || { echo "SWEEP $LABEL - patch does not apply"; exit 2; }; fi
B="${SWEEP_BASE:-/verif}"
cp -r "$B/shadow" "$S/verif/shadow"
mkdir -p "$S/verif/sim" "$S/verif/evidence"
cp -r "$B/sim/src" "$B/sim/Cargo.toml" "$B/sim/Cargo.lock" "$S/verif/sim/"
cp "$B/known_findings.json" "$B/MANIFEST.json" "$B/properties.jsonl" "$S/verif/"
sed -i "s#/repo/src/lib.rs#$S/repo/src/lib.rs#" "$S/verif/shadow/Cargo.toml"
export CARGO_NET_OFFLINE=true VERIF_ROOT="$S/verif"
JOBS="${SWEEP_JOBS:-8}"
( cd "$S/verif/sim" && cargo build --release --offline -j "$JOBS" >"$S/build.log" 2>&1 ) || { echo "SWEEP $LABEL - build failed: $(grep -E '^error' "$S/build.log" | head -3 | tr '\n' ' ')"; exit 2; }
NEED_CHECKED=0; for p in "$@"; do case $p in C08|C15) NEED_CHECKED=1;; esac; done
if [ $NEED_CHECKED = 1 ]; then ( cd "$S/verif/sim" && cargo build --profile checked --offline -j "$JOBS" >"$S/build-checked.log" 2>&1 ) || { echo "SWEEP $LABEL - checked build failed"; exit 2; }; fi
for p in "$@"; do
  if [ "$BUDGET" != "-" ]; then export VERIF_BUDGET_S=$BUDGET; fi
  VERIF_WORKERS="${SWEEP_WORKERS:-8}" "$S/verif/sim/target/release/sim" check "$p" quick >"$S/out_$p.log" 2>&1; E=$?
  KEYS=$(grep -E "^  oracle=" "$S/out_$p.log" | sed -E 's/.* key=([^ ]+) ::.*/\1/' | sort -u | head -8 | tr '\n' ',')
  HE=$(grep -c "HARNESS-ERROR" "$S/out_$p.log")
  echo "SWEEP $LABEL $p exit=$E harness_errors=$HE keys=$KEYS"
  mkdir -p /tmp/sw_logs; cp "$S/out_$p.log" "/tmp/sw_logs/${LABEL}_$p.log"
done
