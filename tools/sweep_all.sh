#!/bin/bash
# tools/sweep_all.sh [<seeded-id> ...] : triage helper (never a registered check). Runs every seeded change under seeded/
# (or the listed ones) against the quick check of the property it breaks, two at a time, through tools/sweep_one.sh
# (scratch worktree + scratch build; /repo and /verif are not touched). One line per change in $SWEEP_OUT
# (default /tmp/sw_results.txt). Meant for `vp run -- tools/sweep_all.sh` (SWEEP_BASE = the committed snapshot).
cd "$(dirname "$0")/.." || exit 2
export SWEEP_BASE="$(pwd)" SWEEP_JOBS=8 SWEEP_WORKERS=8
OUT="${SWEEP_OUT:-/tmp/sw_results.txt}"; : > "$OUT"
IDS="$*"; [ -z "$IDS" ] && IDS=$(ls seeded | sort)
echo "$IDS" | tr ' ' '\n' | grep . | xargs -P 2 -I{} sh -c 'id={}; p=${id%%-*}; extra=$(cat seeded/$id/also 2>/dev/null); tools/sweep_one.sh seeded/$id/patch.diff $id - $p $extra 2>&1 | grep SWEEP >> '"$OUT"
sort "$OUT"
