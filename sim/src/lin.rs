//! Linearizability checking of bounded FIFO / LIFO histories (Wing & Gong search with Lowe's memoisation), plus the
//! interval rules for "full" answers and the "never more than N pending" invariant.

use std::collections::{BTreeMap, HashSet, VecDeque};

#[derive(Clone, Copy, Debug, PartialEq, Eq)]
pub enum Res {
    PushOk,
    PushFull,
    PopSome,
    PopEmpty,
}

#[derive(Clone, Copy, Debug)]
pub struct LinOp {
    pub inv: u64,
    pub ret: u64,
    pub res: Res,
    /// the value pushed / popped (unique per push); 0 for PopEmpty
    pub value: u32,
    pub thread: usize,
}

#[derive(Clone, Copy, Debug, PartialEq, Eq)]
pub enum Discipline {
    Fifo,
    Lifo,
}

#[derive(Debug)]
pub struct LinError {
    pub oracle: &'static str,
    pub detail: String,
}

/// `freed_at`: for each popped value, the stamp at which its storage is surely free again (the pop's return for
/// by-value containers, the handle release's return for zero-copy channels). `extra_occupancy`: other intervals
/// during which a slot is taken (reservations).
pub fn check(ops: &[LinOp], disc: Discipline, capacity: usize, freed_at: &BTreeMap<u32, u64>, extra_occupancy: &[(u64, u64)]) -> Result<u64, LinError> {
    // ---- 1. integrity
    let mut pushed: BTreeMap<u32, &LinOp> = BTreeMap::new();
    for o in ops.iter().filter(|o| o.res == Res::PushOk) {
        pushed.insert(o.value, o);
    }
    let mut popped: BTreeMap<u32, u32> = BTreeMap::new();
    for o in ops.iter().filter(|o| o.res == Res::PopSome) {
        *popped.entry(o.value).or_insert(0) += 1;
        if !pushed.contains_key(&o.value) {
            let rejected = ops.iter().any(|p| p.res == Res::PushFull && p.value == o.value);
            return Err(LinError { oracle: if rejected { "rejected_returned" } else { "invented" }, detail: format!("value {:#x} was returned but {}", o.value, if rejected { "its insertion had been rejected" } else { "never inserted" }) });
        }
    }
    if let Some((v, n)) = popped.iter().find(|(_, n)| **n > 1) {
        return Err(LinError { oracle: "duplicate", detail: format!("value {:#x} was returned {} times", v, n) });
    }
    // ---- 2. "full" answers by the interval rule
    let mut intervals: Vec<(u64, u64)> = extra_occupancy.to_vec();
    let mut owner: Vec<usize> = vec![usize::MAX; extra_occupancy.len()];
    for (i, o) in ops.iter().enumerate() {
        match o.res {
            Res::PushOk => {
                intervals.push((o.inv, freed_at.get(&o.value).copied().unwrap_or(u64::MAX)));
                owner.push(i);
            }
            Res::PushFull => {
                intervals.push((o.inv, o.ret));
                owner.push(i);
            }
            _ => {}
        }
    }
    for (i, o) in ops.iter().enumerate() {
        if o.res != Res::PushFull {
            continue;
        }
        let mut points: Vec<u64> = vec![o.inv];
        for (k, (s, _)) in intervals.iter().enumerate() {
            if owner[k] != i && *s >= o.inv && *s <= o.ret {
                points.push(*s);
            }
        }
        let mut best = 0usize;
        for t in points {
            let n = intervals.iter().enumerate().filter(|(k, (s, e))| owner[*k] != i && *s <= t && t <= *e).count();
            best = best.max(n);
        }
        if best < capacity {
            return Err(LinError {
                oracle: "full_without_being_full",
                detail: format!("insertion of {:#x} (thread {}, [{}..{}]) was rejected as full, but at no instant of the call were more than {} of the {} slots taken (counting everything accepted and not yet surely freed, in flight, or reserved)", o.value, o.thread, o.inv, o.ret, best, capacity),
            });
        }
    }
    // ---- 3. never more than `capacity` definitely pending
    for o in ops.iter().filter(|o| o.res == Res::PushOk) {
        let t = o.ret;
        let definitely_in = ops.iter().filter(|p| p.res == Res::PushOk && p.ret <= t).count();
        let possibly_out = ops.iter().filter(|p| p.res == Res::PopSome && p.inv <= t).count();
        if definitely_in > possibly_out + capacity {
            return Err(LinError { oracle: "over_capacity", detail: format!("at stamp {} at least {} elements were pending in a container of capacity {}", t, definitely_in - possibly_out, capacity) });
        }
    }
    // ---- 4. Wing-Gong-Lowe search against the sequential model (capacity is judged above, not in the model)
    match wgl(ops, disc, false) {
        Ok(states) => Ok(states),
        Err(detail) => {
            // classify: is it only the "empty" answers that cannot be explained?
            match wgl(ops, disc, true) {
                Ok(_) => Err(LinError { oracle: "empty_while_not_empty", detail: format!("an 'empty' answer was given although the container held an element during the whole call (everything else is explainable): {}", detail) }),
                Err(_) => Err(LinError { oracle: "not_linearizable", detail }),
            }
        }
    }
}

fn wgl(ops: &[LinOp], disc: Discipline, ignore_empty_answers: bool) -> Result<u64, String> {
    let lin: Vec<&LinOp> = ops.iter().filter(|o| o.res != Res::PushFull && !(ignore_empty_answers && o.res == Res::PopEmpty)).collect();
    if lin.len() > 62 {
        return Ok(0);
    }
    let n = lin.len();
    let full_mask: u64 = if n == 64 { u64::MAX } else { (1u64 << n) - 1 };
    let mut seen: HashSet<(u64, Vec<u32>)> = HashSet::new();
    let mut states = 0u64;
    // iterative DFS
    let mut stack: Vec<(u64, VecDeque<u32>)> = vec![(0, VecDeque::new())];
    while let Some((done, model)) = stack.pop() {
        if done == full_mask {
            return Ok(states);
        }
        states += 1;
        if states > 400_000 {
            // give up on this history (counted as unchecked by the caller: never reported as a violation)
            return Ok(0);
        }
        // minimal operations: invoked before every not-yet-linearised operation returned
        let mut min_ret = u64::MAX;
        for (i, o) in lin.iter().enumerate() {
            if done & (1 << i) == 0 {
                min_ret = min_ret.min(o.ret);
            }
        }
        for (i, o) in lin.iter().enumerate() {
            if done & (1 << i) != 0 || o.inv > min_ret {
                continue;
            }
            let mut m = model.clone();
            let ok = match o.res {
                Res::PushOk => {
                    m.push_back(o.value);
                    true
                }
                Res::PopSome => match disc {
                    Discipline::Fifo => m.pop_front() == Some(o.value),
                    Discipline::Lifo => m.pop_back() == Some(o.value),
                },
                Res::PopEmpty => m.is_empty(),
                Res::PushFull => unreachable!(),
            };
            if ok {
                let key = (done | (1 << i), m.iter().copied().collect::<Vec<u32>>());
                if seen.insert(key) {
                    stack.push((done | (1 << i), m));
                }
            }
        }
    }
    Err(format!(
        "no sequential {} order explains the history: {}",
        if disc == Discipline::Fifo { "FIFO" } else { "LIFO" },
        ops.iter().map(|o| format!("t{}[{}..{}]{:?}({:#x})", o.thread, o.inv, o.ret, o.res, o.value)).collect::<Vec<_>>().join(" ")
    ))
}
