#!/usr/bin/env python3
"""Regenerates the committed replay files of the known findings (findings/*.json) from the current tree: each known
finding's key pattern is searched for with an empty known-findings list in a scratch root, minimised, and the replay
file copied back. Needed whenever the set of scheduling points changes (decision logs are positional)."""
import json, os, shutil, subprocess, sys, glob
ROOT = '/verif'
SCR = '/tmp/verif-kfroot'
shutil.rmtree(SCR, ignore_errors=True)
os.makedirs(SCR)
open(f'{SCR}/known_findings.json', 'w').write('[]')
shutil.copy(f'{ROOT}/MANIFEST.json', SCR); shutil.copy(f'{ROOT}/properties.jsonl', SCR)
os.makedirs(f'{SCR}/sim/target', exist_ok=True)
os.symlink(f'{ROOT}/sim/target/checked', f'{SCR}/sim/target/checked')
kf = json.load(open(f'{ROOT}/known_findings.json'))
only = sys.argv[1:]  # optional: replay file names to regenerate
done = {}
for e in kf:
    if e['status'] != 'known' or not e.get('replay'): continue
    if only and os.path.basename(e['replay']) not in only: continue
    if e['replay'] in done:
        continue
    shutil.rmtree(f'{SCR}/replays', ignore_errors=True)
    env = dict(os.environ, VERIF_ROOT=SCR, VERIF_ONLY_GLOB=e['key'], VERIF_BUDGET_S=os.environ.get('REGEN_BUDGET_S', '40'), VERIF_SKIP_DET='1', VERIF_SURVEY='1')
    r = subprocess.run([f'{ROOT}/sim/target/release/sim', 'check', e['property'], 'quick'], env=env, capture_output=True, text=True)
    files = sorted(glob.glob(f'{SCR}/replays/*.json'), key=os.path.getsize)
    files = [f for f in files if not f.endswith('-orig.json')] or files
    if not files:
        print('NOT FOUND', e['property'], e['key']); continue
    # smallest replay (fewest decisions)
    best = min(files, key=lambda f: len(json.load(open(f))['decisions']))
    shutil.copy(best, f"{ROOT}/{e['replay']}")
    done[e['replay']] = True
    j = json.load(open(best))
    print('ok', e['replay'], j['violation']['key'], len(j['decisions']), 'decisions')
