#!/bin/bash
# tools/all_quick.sh <VERIF_SEED> [<Cxx> ...] : runs the quick checks (all 20 by default) under the given VERIF_SEED against /repo as it is,
# one summary line per property. Triage helper for "no alarm on the unchanged tree under any VERIF_SEED"; never a registered check.
cd "$(dirname "$0")/.." || exit 2
SEED="${1:-1}"; shift
PROPS="$*"; [ -z "$PROPS" ] && PROPS="C01 C02 C03 C04 C05 C06 C07 C08 C09 C10 C11 C12 C13 C14 C15 C16 C17 C18 C19 C20"
for p in $PROPS; do
  VERIF_SEED=$SEED ./check $p quick > /tmp/allq_${SEED}_$p.log 2>&1; E=$?
  echo "ALLQ seed=$SEED $p exit=$E $(grep -E "^$p quick: [0-9]" /tmp/allq_${SEED}_$p.log | tail -1) $(grep -E '^VIOLATION|HARNESS-ERROR' /tmp/allq_${SEED}_$p.log | head -3 | tr '\n' ' ')"
done
