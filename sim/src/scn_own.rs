//! Scenario families over the ownership / metrics primitives:
//!   `handles` -- OgreArc / OgreUnique handles to pooled values cloned, bulk-copied, converted, moved between and dropped
//!                on 2..3 simulated threads (C14; the ledger oracles also serve C05);
//!   `metrics` -- the incremental-average metric recorded concurrently while another thread probes it (C19).

use crate::chan::{HandleDyn, IntoHandle};
use crate::ctx::{self, harness_point, SchedSpec};
use crate::engine_t::{Body, Guarded};
use crate::framework::{Scenario, Tier};
use crate::harness::{self, HLock};
use crate::payload::{Payload, Tracked};
use crate::rng::Rng;
use reactive_mutiny::prelude::advanced::*;
use serde::{Deserialize, Serialize};
use std::sync::Arc;

// =============================================================================================================
// C14: handles
// =============================================================================================================

#[derive(Clone, Copy, Debug, PartialEq, Eq, Serialize, Deserialize)]
pub enum Make {
    /// `OgreArc::new()` + write through the returned reference
    New,
    /// `OgreArc::new_with(setter)`
    NewWith,
    /// `OgreArc::new_with_clones::<2>` / `::<3>`
    Clones2,
    Clones3,
    /// `OgreUnique::new(setter)`, left unique (a thread may convert it later)
    Unique,
    /// `OgreUnique::new(setter).into_ogre_arc()` before the threads start
    UniqueToShared,
}

pub trait PoolDyn: Send + Sync {
    fn create(&self, id: u32, how: Make) -> Option<Vec<Box<dyn HandleDyn>>>;
}

struct PoolW<A: BoundedOgreAllocator<Tracked> + Send + Sync + 'static>(Guarded<Box<A>>);

impl<A: BoundedOgreAllocator<Tracked> + Send + Sync + 'static> PoolDyn for PoolW<A> {
    fn create(&self, id: u32, how: Make) -> Option<Vec<Box<dyn HandleDyn>>> {
        let a: &A = &self.0;
        let set = |slot: &mut Tracked| unsafe { std::ptr::write(slot, Tracked::make(id)) };
        Some(match how {
            Make::New => {
                let (arc, slot) = OgreArc::new(a)?;
                set(slot);
                vec![arc.into_handle()]
            }
            Make::NewWith => vec![OgreArc::new_with(set, a)?.into_handle()],
            Make::Clones2 => OgreArc::new_with_clones::<2, _>(set, a)?.into_iter().map(|h| h.into_handle()).collect(),
            Make::Clones3 => OgreArc::new_with_clones::<3, _>(set, a)?.into_iter().map(|h| h.into_handle()).collect(),
            Make::Unique => vec![OgreUnique::new(set, a)?.into_handle()],
            Make::UniqueToShared => vec![OgreUnique::new(set, a)?.into_ogre_arc().into_handle()],
        })
    }
}

pub fn make_pool(atomic: bool, pool: usize) -> Arc<dyn PoolDyn> {
    macro_rules! mk {
        ($n:literal) => {
            if atomic {
                Arc::new(PoolW::<AllocatorAtomicArray<Tracked, $n>>(Guarded::new(Box::new(BoundedOgreAllocator::new())))) as Arc<dyn PoolDyn>
            } else {
                Arc::new(PoolW::<AllocatorFullSyncArray<Tracked, $n>>(Guarded::new(Box::new(BoundedOgreAllocator::new())))) as Arc<dyn PoolDyn>
            }
        };
    }
    match pool {
        2 => mk!(2),
        4 => mk!(4),
        8 => mk!(8),
        other => panic!("pool size {} is not instantiated", other),
    }
}

#[derive(Clone, Copy, Debug, PartialEq, Eq, Serialize, Deserialize)]
pub enum HandleOp {
    Clone(u8),
    Drop(u8),
    Deref(u8),
    /// increment_references(n) + n raw copies
    Bulk(u8, u8),
    /// move one of my handles to another thread
    Give(u8, u8),
    RefCount(u8),
    /// unique -> shared
    IntoShared(u8),
    /// create a further pooled value while the other threads work (skipped when the pool has no room)
    Create(Make),
    /// clone through one of the *public* handles: handles that stay alive to the end of the run and that every thread may
    /// clone from at any time, through a shared reference (`OgreArc` is `Sync`) -- several threads at once, too
    ClonePublic(u8),
}

#[derive(Clone, Debug, Serialize, Deserialize)]
pub struct HandleParams {
    pub sched: SchedSpec,
    pub atomic_alloc: bool,
    pub pool: usize,
    /// how each pooled value is created (its handles are dealt to the threads round-robin)
    pub values: Vec<Make>,
    pub threads: Vec<Vec<HandleOp>>,
    /// handles left when a thread finishes: true = handed to the orchestrator (quiescent-point checks, sequential
    /// drops); false = dropped by the thread itself (concurrent last drops)
    pub leftovers_to_main: bool,
    /// number of further values (created with `OgreArc::new_with`) whose single initial handle is public (see `ClonePublic`)
    #[serde(default)]
    pub public: usize,
}

/// the public handles: shared by reference between the simulated threads
struct Publics(Vec<Owned>);
unsafe impl Sync for Publics {}
unsafe impl Send for Publics {}

fn value_id(v: usize) -> u32 {
    0x100 * (v as u32 + 1) + 1
}

struct Owned {
    id: u32,
    h: Box<dyn HandleDyn>,
}

/// A thread's handles. When the run is being aborted (a verdict was reached: the thread unwinds) the handles are *not*
/// dropped: after a double free or a lost reference the crate's destructors may spin for good -- with the run aborted no hook
/// is a scheduling point any more, so that would block the process instead of reporting the verdict.
struct Stash(Vec<Owned>);
impl Drop for Stash {
    fn drop(&mut self) {
        if ctx::aborted() || std::thread::panicking() {
            std::mem::forget(std::mem::take(&mut self.0));
        }
    }
}
impl std::ops::Deref for Stash {
    type Target = Vec<Owned>;
    fn deref(&self) -> &Vec<Owned> {
        &self.0
    }
}
impl std::ops::DerefMut for Stash {
    fn deref_mut(&mut self) -> &mut Vec<Owned> {
        &mut self.0
    }
}

pub fn ledger_begin(id: u32, live_delta: i32) {
    ctx::with_ctx(|c| {
        *c.ledger.live.entry(id).or_insert(0) += live_delta;
        *c.ledger.in_flight.entry(id).or_insert(0) += 1;
        *c.ledger.version.entry(id).or_insert(0) += 1;
    });
}
pub fn ledger_end(id: u32, live_delta: i32) {
    ctx::with_ctx(|c| {
        *c.ledger.live.entry(id).or_insert(0) += live_delta;
        *c.ledger.in_flight.entry(id).or_insert(0) -= 1;
        *c.ledger.version.entry(id).or_insert(0) += 1;
    });
}
pub fn ledger_state(id: u32) -> (i32, i32, u64, u32) {
    ctx::with_ctx(|c| (c.ledger.live.get(&id).copied().unwrap_or(0), c.ledger.in_flight.get(&id).copied().unwrap_or(0), c.ledger.version.get(&id).copied().unwrap_or(0), c.ledger.destroyed_count(id))).unwrap_or((0, 0, 0, 0))
}

/// drops one handle the way every harness site must: table first, then the real drop, then the "exactly when the last
/// handle is dropped" verdict
fn drop_handle(key: &dyn Fn(&str) -> String, o: Owned) {
    let Owned { id, h } = o;
    if h.id() != id || !h.intact() {
        ctx::report("C14", "deref_wrong_value", key("deref_wrong_value"), format!("a live handle to value {:#x} dereferences to something else (id field {:#x}, intact={})", id, h.id(), h.intact()));
    }
    ledger_begin(id, -1);
    ctx::op_mark("handle.drop");
    drop(h);
    ctx::op_mark("");
    ledger_end(id, 0);
    if ctx::aborted() {
        // stop here: whatever happened, no other handle may be touched any more
        ctx::abort_run("verdict".into());
    }
    let (live, in_flight, _, destroyed) = ledger_state(id);
    if live == 0 && in_flight == 0 && destroyed != 1 {
        ctx::report("C14", "not_destroyed_at_last_drop", key("not_destroyed_at_last_drop"), format!("the last handle to value {:#x} was dropped (no drop in progress any more) and its destructor has run {} times", id, destroyed));
    }
    if live > 0 && destroyed > 0 {
        ctx::report("C14", "destroyed_while_held", key("destroyed_while_held"), format!("value {:#x} is destroyed although {} handle(s) are alive", id, live));
        ctx::abort_run("verdict".into());
    }
}

fn handles_body(p: &HandleParams) {
    harness::reset();
    let alloc_name = if p.atomic_alloc { "alloc.atomic" } else { "alloc.full_sync" };
    let family: &'static str = if p.atomic_alloc { "handles/alloc.atomic" } else { "handles/alloc.full_sync" };
    ctx::with_ctx(|c| {
        c.ledger.held_property = "C14";
        c.ledger.held_family = family;
    });
    let key = move |oracle: &str| format!("handles/{}/{}", alloc_name, oracle);
    let pool = make_pool(p.atomic_alloc, p.pool);
    let n_threads = p.threads.len();
    let mut stashes: Vec<Vec<Owned>> = (0..n_threads).map(|_| vec![]).collect();
    let mut next_thread = 0usize;
    for (v, how) in p.values.iter().enumerate() {
        let id = value_id(v);
        match pool.create(id, *how) {
            None => {
                ctx::report("C14", "allocation_failed_with_room", key("allocation_failed_with_room"), format!("creating value #{} of {} in a pool of {} failed", v, p.values.len(), p.pool));
                return;
            }
            Some(hs) => {
                ctx::with_ctx(|c| {
                    c.ledger.live.insert(id, hs.len() as i32);
                    c.ledger.in_flight.insert(id, 0);
                });
                for h in hs {
                    if h.id() != id || !h.intact() {
                        ctx::report("C14", "deref_wrong_value", key("deref_wrong_value"), format!("a fresh handle to value {:#x} dereferences to something else", id));
                    }
                    stashes[next_thread % n_threads].push(Owned { id, h });
                    next_thread += 1;
                }
            }
        }
    }
    let mut publics = vec![];
    for i in 0..p.public {
        let id = 0x5000 + i as u32 + 1;
        match pool.create(id, Make::NewWith) {
            None => {
                ctx::report("C14", "allocation_failed_with_room", key("allocation_failed_with_room"), format!("creating public value #{} in a pool of {} failed", i, p.pool));
                return;
            }
            Some(mut hs) => {
                ctx::with_ctx(|c| {
                    c.ledger.live.insert(id, 1);
                    c.ledger.in_flight.insert(id, 0);
                });
                publics.push(Owned { id, h: hs.remove(0) });
            }
        }
    }
    let publics = Arc::new(Publics(publics));
    let inboxes: Arc<Vec<HLock<Vec<Owned>>>> = Arc::new((0..n_threads).map(|_| HLock::new(vec![])).collect());
    let leftovers: Arc<HLock<Vec<Owned>>> = Arc::new(HLock::new(vec![]));
    let mut handles = vec![];
    for (t, ops) in p.threads.iter().enumerate() {
        let (ops, inboxes, leftovers) = (ops.clone(), Arc::clone(&inboxes), Arc::clone(&leftovers));
        let mut stash = Stash(std::mem::take(&mut stashes[t]));
        let to_main = p.leftovers_to_main;
        let pool2 = Arc::clone(&pool);
        let publics2 = Arc::clone(&publics);
        let mut created_here = 0u32;
        handles.push(shuttle::thread::spawn(move || {
            let key = move |oracle: &str| format!("handles/{}/{}", alloc_name, oracle);
            for op in ops {
                if ctx::aborted() {
                    return;
                }
                stash.append(&mut inboxes[t].lock().unwrap());
                harness_point();
                if let HandleOp::Create(how) = op {
                    created_here += 1;
                    let id = 0x1000 * (t as u32 + 1) + created_here;
                    ctx::op_mark("handle.new");
                    let made = pool2.create(id, how);
                    ctx::op_mark("");
                    if let Some(hs) = made {
                        ctx::with_ctx(|c| {
                            *c.ledger.live.entry(id).or_insert(0) += hs.len() as i32;
                            c.ledger.in_flight.entry(id).or_insert(0);
                        });
                        for h in hs {
                            if h.id() != id || !h.intact() {
                                ctx::report("C14", "deref_wrong_value", key("deref_wrong_value"), format!("a fresh handle to value {:#x} dereferences to something else (id field {:#x}, intact={})", id, h.id(), h.intact()));
                            }
                            stash.push(Owned { id, h });
                        }
                    }
                    continue;
                }
                if let HandleOp::ClonePublic(k) = op {
                    if publics2.0.is_empty() {
                        continue;
                    }
                    let public = &publics2.0[(k as usize) % publics2.0.len()];
                    let id = public.id;
                    ctx::trace(|| format!("thread {} clones through the public handle to {:#x}", t, id));
                    ledger_begin(id, 0);
                    ctx::op_mark("handle.clone[through a shared reference]");
                    let c = public.h.try_clone();
                    ctx::op_mark("");
                    ledger_end(id, if c.is_some() { 1 } else { 0 });
                    if let Some(c) = c {
                        if c.id() != id || !c.intact() || c.addr() != public.h.addr() {
                            ctx::report("C14", "deref_wrong_value", key("deref_wrong_value"), format!("a clone of the public handle to value {:#x} dereferences to something else", id));
                        }
                        stash.push(Owned { id, h: c });
                    }
                    // "the reported reference count equals the number of live shared handles when no clone or drop is in progress"
                    let (live0, fl0, v0, _) = ledger_state(id);
                    let rc = public.h.refcount();
                    let (_, _, v1, _) = ledger_state(id);
                    if let Some(rc) = rc {
                        if fl0 == 0 && v0 == v1 {
                            ctx::with_ctx(|c| *c.probes.entry("harness.handles.refcount_judged").or_insert(0) += 1);
                            if rc as i32 != live0 {
                                ctx::report("C14", "references_count", key("references_count"), format!("references_count() == {} with {} live shared handles to value {:#x} and no clone or drop in progress (right after a clone through the public handle)", rc, live0, id));
                                ctx::abort_run("verdict".into());
                            }
                        }
                    }
                    continue;
                }
                if stash.is_empty() {
                    continue;
                }
                let pick = |k: u8| (k as usize) % stash.len();
                ctx::trace(|| format!("thread {} {:?} (holding {} handles)", t, op, stash.len()));
                match op {
                    HandleOp::Clone(k) => {
                        let i = pick(k);
                        if stash[i].h.is_unique() {
                            continue;
                        }
                        let id = stash[i].id;
                        ledger_begin(id, 0);
                        ctx::op_mark("handle.clone");
                        let c = stash[i].h.try_clone();
                        ctx::op_mark("");
                        ledger_end(id, if c.is_some() { 1 } else { 0 });
                        if let Some(c) = c {
                            if c.id() != id || !c.intact() || c.addr() != stash[i].h.addr() {
                                ctx::report("C14", "deref_wrong_value", key("deref_wrong_value"), format!("a clone of a handle to value {:#x} dereferences to something else", id));
                            }
                            stash.push(Owned { id, h: c });
                        }
                    }
                    HandleOp::Bulk(k, n) => {
                        let i = pick(k);
                        if stash[i].h.is_unique() || stash[i].h.refcount().is_none() {
                            continue;
                        }
                        let id = stash[i].id;
                        let n = 1 + (n as u32 % 3);
                        ledger_begin(id, 0);
                        ctx::op_mark("handle.bulk_copy");
                        let copies = stash[i].h.bulk_copies(n);
                        ctx::op_mark("");
                        ledger_end(id, copies.len() as i32);
                        for c in copies {
                            stash.push(Owned { id, h: c });
                        }
                    }
                    HandleOp::Drop(k) => {
                        let i = pick(k);
                        let o = stash.remove(i);
                        drop_handle(&key, o);
                    }
                    HandleOp::Deref(k) => {
                        let i = pick(k);
                        let (id, h) = (stash[i].id, &stash[i].h);
                        if h.id() != id || !h.intact() {
                            ctx::report("C14", "deref_wrong_value", key("deref_wrong_value"), format!("a live handle to value {:#x} dereferences to something else (id field {:#x}, intact={})", id, h.id(), h.intact()));
                        }
                    }
                    HandleOp::Give(k, to) => {
                        let i = pick(k);
                        let o = stash.remove(i);
                        let to = (to as usize) % n_threads;
                        if to == t {
                            stash.push(o);
                        } else {
                            inboxes[to].lock().unwrap().push(o);
                        }
                    }
                    HandleOp::RefCount(k) => {
                        let i = pick(k);
                        let id = stash[i].id;
                        let (live0, fl0, v0, _) = ledger_state(id);
                        let rc = stash[i].h.refcount();
                        let (_, _, v1, _) = ledger_state(id);
                        if let Some(rc) = rc {
                            if fl0 == 0 && v0 == v1 {
                                ctx::with_ctx(|c| *c.probes.entry("harness.handles.refcount_judged").or_insert(0) += 1);
                                if rc as i32 != live0 {
                                    ctx::report("C14", "references_count", key("references_count"), format!("references_count() == {} with {} live shared handles to value {:#x} and no clone or drop in progress", rc, live0, id));
                                }
                            }
                        }
                    }
                    HandleOp::Create(_) | HandleOp::ClonePublic(_) => unreachable!(),
                    HandleOp::IntoShared(k) => {
                        let i = pick(k);
                        if !stash[i].h.is_unique() {
                            continue;
                        }
                        let o = stash.remove(i);
                        let id = o.id;
                        ledger_begin(id, 0);
                        ctx::op_mark("handle.into_ogre_arc");
                        let shared = o.h.into_shared();
                        ctx::op_mark("");
                        ledger_end(id, 0);
                        let (_, _, _, destroyed) = ledger_state(id);
                        if destroyed != 0 || shared.id() != id || !shared.intact() || shared.refcount() != Some(1) {
                            ctx::report("C14", "conversion", key("conversion"), format!("converting the unique handle to value {:#x} into a shared one: destructor ran {} times, dereferences to {:#x} (intact={}), references_count {:?}", id, destroyed, shared.id(), shared.intact(), shared.refcount()));
                        }
                        stash.push(Owned { id, h: shared });
                    }
                }
            }
            if ctx::aborted() {
                return;
            }
            if to_main {
                leftovers.lock().unwrap().append(&mut stash);
            } else {
                while !stash.is_empty() {
                    let o = stash.remove(0);
                    drop_handle(&key, o);
                }
            }
        }));
    }
    for h in handles {
        let _ = h.join();
    }
    if ctx::aborted() {
        return;
    }
    // whatever is still in an inbox (given to a thread that had already finished) or was handed back
    let mut rest: Vec<Owned> = std::mem::take(&mut *leftovers.lock().unwrap());
    for ib in inboxes.iter() {
        rest.append(&mut ib.lock().unwrap());
    }
    // the public handles were alive all along: now they are ordinary handles of the orchestrator
    match Arc::try_unwrap(publics) {
        Ok(Publics(mut v)) => rest.append(&mut v),
        Err(_) => panic!("harness: the public handles are still shared"),
    }
    // quiescent point: reference counts are exact, every handle dereferences to its value
    for o in rest.iter() {
        let (live, _, _, destroyed) = ledger_state(o.id);
        if o.h.id() != o.id || !o.h.intact() || destroyed != 0 {
            ctx::report("C14", "deref_wrong_value", key("deref_wrong_value"), format!("at quiescence a live handle to value {:#x} dereferences to {:#x} (intact={}, destructor runs so far {})", o.id, o.h.id(), o.h.intact(), destroyed));
            ctx::abort_run("verdict".into());
        }
        if let Some(rc) = o.h.refcount() {
            if rc as i32 != live {
                ctx::report("C14", "references_count", key("references_count"), format!("at quiescence references_count() == {} with {} live shared handles to value {:#x}", rc, live, o.id));
            }
        }
    }
    while !rest.is_empty() {
        let o = rest.remove(0);
        drop_handle(&key, o);
    }
    // every value destroyed exactly once
    let bad: Vec<(u32, (u32, u32))> = ctx::with_ctx(|c| c.ledger.ids.iter().filter(|(_, (cr, de))| cr != de).map(|(id, e)| (*id, *e)).collect()).unwrap_or_default();
    if !bad.is_empty() {
        ctx::report("C14", "destruction_count", key("destruction_count"), format!("after every handle was dropped: (value, (created, destroyed)) = {:x?}", bad));
    }
    // and every slot is back in the pool
    let mut got = vec![];
    for i in 0..p.pool {
        match pool.create(0x7000 + i as u32, Make::NewWith) {
            Some(mut hs) => got.append(&mut hs),
            None => break,
        }
    }
    let one_more = pool.create(0x70FF, Make::NewWith);
    if got.len() != p.pool || one_more.is_some() {
        ctx::report("C14", "pool_not_restored", key("pool_not_restored"), format!("after every handle was dropped {} allocations succeeded on a pool of {} (and a further one: {})", got.len(), p.pool, one_more.is_some()));
    }
    drop(one_more);
    drop(got);
    drop(pool);
}

pub struct Handles;

impl Scenario for Handles {
    type P = HandleParams;
    fn property(&self) -> &'static str {
        "C14"
    }
    fn name(&self) -> &'static str {
        "handles"
    }
    fn engine(&self) -> &'static str {
        "T"
    }
    fn generate(&self, rng: &mut Rng, tier: Tier) -> HandleParams {
        let pool = *rng.pick(&[2usize, 4, 8]);
        let n_values = 1 + rng.below(pool.min(3) as u64) as usize;
        let values = (0..n_values).map(|_| *rng.pick(&[Make::New, Make::NewWith, Make::Clones2, Make::Clones3, Make::Unique, Make::UniqueToShared, Make::Clones2])).collect();
        let n_threads = 2 + rng.below(2) as usize;
        let public = if pool > n_values && rng.chance(1, 2) { 1 + rng.below((pool - n_values).min(2) as u64) as usize } else { 0 };
        let max_ops = if tier == Tier::Thorough { 9 } else { 7 };
        let threads = (0..n_threads)
            .map(|_| {
                let n = 1 + rng.below(max_ops) as usize;
                (0..n)
                    .map(|_| {
                        let k = rng.below(4) as u8;
                        if public > 0 && rng.chance(1, 4) {
                            return HandleOp::ClonePublic(k);
                        }
                        match rng.below(20) {
                            0..=5 => HandleOp::Clone(k),
                            6..=10 => HandleOp::Drop(k),
                            11 | 12 => HandleOp::Deref(k),
                            13 | 14 => HandleOp::Bulk(k, rng.below(3) as u8),
                            15 | 16 => HandleOp::Give(k, rng.below(3) as u8),
                            17 => HandleOp::RefCount(k),
                            18 => HandleOp::Create(*rng.pick(&[Make::NewWith, Make::New, Make::Clones2, Make::Unique])),
                            _ => HandleOp::IntoShared(k),
                        }
                    })
                    .collect()
            })
            .collect();
        let mut sched = SchedSpec::draw(rng);
        if rng.chance(1, 4) {
            sched.origin = u32::MAX - rng.below(3 * pool as u64 + 2) as u32;
        }
        HandleParams { sched, atomic_alloc: rng.chance(1, 2), pool, values, threads, leftovers_to_main: rng.chance(1, 3), public }
    }
    fn sched<'a>(&self, p: &'a HandleParams) -> &'a SchedSpec {
        &p.sched
    }
    fn with_sched(&self, p: &HandleParams, s: SchedSpec) -> HandleParams {
        let mut q = p.clone();
        q.sched = s;
        q
    }
    fn body(&self, p: &HandleParams) -> Option<Body> {
        let p2 = p.clone();
        Some(Arc::new(move || handles_body(&p2)))
    }
    fn shrink(&self, p: &HandleParams) -> Vec<HandleParams> {
        let mut out = vec![];
        if p.threads.len() > 1 {
            for i in 0..p.threads.len() {
                let mut q = p.clone();
                q.threads.remove(i);
                out.push(q);
            }
        }
        for i in 0..p.threads.len() {
            if p.threads[i].len() > 1 {
                for j in (0..p.threads[i].len()).rev() {
                    let mut q = p.clone();
                    q.threads[i].remove(j);
                    out.push(q);
                }
            }
        }
        if p.values.len() > 1 {
            for i in 0..p.values.len() {
                let mut q = p.clone();
                q.values.remove(i);
                out.push(q);
            }
        }
        for i in 0..p.values.len() {
            if p.values[i] != Make::NewWith {
                let mut q = p.clone();
                q.values[i] = Make::NewWith;
                out.push(q);
            }
        }
        if p.sched.origin != 0 {
            let mut q = p.clone();
            q.sched.origin = 0;
            out.push(q);
        }
        if p.sched.weak_cas > 0 || p.sched.stall > 0 {
            let mut q = p.clone();
            q.sched.weak_cas = 0;
            q.sched.stall = 0;
            out.push(q);
        }
        if p.pool > 2 && p.values.len() <= p.pool / 2 {
            let mut q = p.clone();
            q.pool /= 2;
            out.push(q);
        }
        out
    }
    fn size(&self, p: &HandleParams) -> u64 {
        p.threads.iter().map(|t| t.len() as u64).sum::<u64>() * 4 + p.values.len() as u64 * 3 + p.pool as u64
    }
    fn components(&self) -> serde_json::Value {
        serde_json::json!({"real": ["reactive-mutiny OgreArc, OgreUnique, OgreArrayPoolAllocator over both free-list rings (/repo working tree, feature verif)"], "stub": []})
    }
    fn assumptions(&self) -> Vec<String> {
        vec![
            "sequential consistency at the instrumented atomics (references_count, the free list's counters); weak-memory effects are not explored".into(),
            "a handle is only ever cloned / bulk-copied by the thread that currently owns it (the API contract: clone needs a live handle)".into(),
            "references_count() is judged only when the harness table shows no clone, bulk copy, conversion or drop of that value in progress before and after the load".into(),
        ]
    }
}

// =============================================================================================================
// C19: metrics
// =============================================================================================================

#[derive(Clone, Debug, Serialize, Deserialize)]
pub struct MetricParams {
    pub sched: SchedSpec,
    /// per recording thread: its measurements, in quarters (value = q * 0.25; q == -4 is the "-1.0 = no timing" sentinel)
    pub recorders: Vec<Vec<i32>>,
    /// number of probe() calls of the reading thread
    pub probes: u32,
}

struct IncRec {
    thread: usize,
    seq: usize,
    inv: u64,
    ret: u64,
}

struct ProbeRec {
    inv: u64,
    ret: u64,
    count: u32,
    average: f32,
}

fn metrics_body(p: &MetricParams) {
    use reactive_mutiny::verif::AtomicIncrementalAverage64;
    let key = |oracle: &str| format!("metrics/{}", oracle);
    struct M(AtomicIncrementalAverage64);
    unsafe impl Send for M {}
    unsafe impl Sync for M {}
    let metric = Arc::new(M(AtomicIncrementalAverage64::new()));
    let incs: Arc<HLock<Vec<IncRec>>> = Arc::new(HLock::new(vec![]));
    let probes: Arc<HLock<Vec<ProbeRec>>> = Arc::new(HLock::new(vec![]));
    let mut handles = vec![];
    for (t, ms) in p.recorders.iter().enumerate() {
        let (metric, incs, ms) = (Arc::clone(&metric), Arc::clone(&incs), ms.clone());
        handles.push(shuttle::thread::spawn(move || {
            for (seq, q) in ms.iter().enumerate() {
                let inv = ctx::stamp();
                ctx::op_mark("metric.inc");
                metric.0.inc(*q as f32 * 0.25);
                ctx::op_mark("");
                let ret = ctx::stamp();
                incs.lock().unwrap().push(IncRec { thread: t, seq, inv, ret });
                harness_point();
                if ctx::aborted() {
                    return;
                }
            }
        }));
    }
    {
        let (metric, probes, n) = (Arc::clone(&metric), Arc::clone(&probes), p.probes);
        handles.push(shuttle::thread::spawn(move || {
            for _ in 0..n {
                harness_point();
                let inv = ctx::stamp();
                ctx::op_mark("metric.probe");
                let (count, average) = metric.0.probe();
                ctx::op_mark("");
                let ret = ctx::stamp();
                probes.lock().unwrap().push(ProbeRec { inv, ret, count, average });
                if ctx::aborted() {
                    return;
                }
            }
        }));
    }
    for h in handles {
        let _ = h.join();
    }
    if ctx::aborted() {
        return;
    }
    let value = |t: usize, seq: usize| p.recorders[t][seq] as f64 * 0.25;
    let total: usize = p.recorders.iter().map(|r| r.len()).sum();
    // "counter jump": the metric started as if `c0` measurements averaging 0.0 had been recorded before
    let c0 = p.sched.metric_origin as usize;
    if c0 != 0 {
        ctx::fault_fired("metric_counter_jump");
    }
    let scale = p.recorders.iter().flatten().map(|q| (*q as f64 * 0.25).abs()).fold(1.0f64, f64::max);
    let tol = 2e-4 * scale;
    // final reading
    let (count, average) = metric.0.probe();
    if count as usize != c0 + total {
        ctx::report("C19", "count", key("count"), format!("{} measurements were recorded (the counter started at {}), the counter says {}", total, c0, count));
    }
    let mean_all = if c0 + total == 0 { 0.0 } else { p.recorders.iter().enumerate().flat_map(|(t, r)| (0..r.len()).map(move |s| (t, s))).map(|(t, s)| value(t, s)).sum::<f64>() / (c0 + total) as f64 };
    if count as usize == c0 + total && (average as f64 - mean_all).abs() > tol {
        ctx::report("C19", "average", key("average"), format!("the final average is {} but the arithmetic mean of the {} recorded measurements is {}", average, total, mean_all));
    }
    // every reading taken during the run: a count together with the average that belonged to that count, for some
    // linearization of the recordings consistent with real time
    let incs = incs.lock().unwrap();
    let n_t = p.recorders.len();
    for pr in probes.lock().unwrap().iter() {
        // per thread: the measurements that had surely been recorded before the reading started (lower bound) and
        // those that had at least started before it ended (upper bound)
        let lo: Vec<usize> = (0..n_t).map(|t| incs.iter().filter(|i| i.thread == t && i.ret < pr.inv).count()).collect();
        let hi: Vec<usize> = (0..n_t).map(|t| incs.iter().filter(|i| i.thread == t && i.inv < pr.ret).count()).collect();
        let mut explained = false;
        let mut closest = f64::MAX;
        // enumerate prefix sizes
        let mut k = lo.clone();
        'search: loop {
            let c: usize = k.iter().sum();
            if c0 + c == pr.count as usize {
                let mean = if c0 + c == 0 { 0.0 } else { (0..n_t).flat_map(|t| (0..k[t]).map(move |s| (t, s))).map(|(t, s)| value(t, s)).sum::<f64>() / (c0 + c) as f64 };
                let d = (pr.average as f64 - mean).abs();
                closest = closest.min(d);
                if d <= tol {
                    explained = true;
                    break 'search;
                }
            }
            // next combination
            let mut i = 0;
            loop {
                if i == n_t {
                    break 'search;
                }
                if k[i] < hi[i] {
                    k[i] += 1;
                    break;
                }
                k[i] = lo[i];
                i += 1;
            }
        }
        ctx::with_ctx(|c| *c.probes.entry("harness.metrics.readings_judged").or_insert(0) += 1);
        if !explained {
            let _ = incs.iter().map(|i| i.seq).max();
            ctx::report(
                "C19",
                "inconsistent_reading",
                key("inconsistent_reading"),
                format!("probe() answered (count {}, average {}): no set of {} measurements made of per-thread prefixes (at least {:?}, at most {:?} per thread by real time) has that mean (closest differs by {:e}, tolerance {:e}) -- a torn or mixed pair", pr.count, pr.average, pr.count, lo, hi, closest, tol),
            );
        }
    }
}

pub struct Metrics;

impl Scenario for Metrics {
    type P = MetricParams;
    fn property(&self) -> &'static str {
        "C19"
    }
    fn name(&self) -> &'static str {
        "metrics"
    }
    fn engine(&self) -> &'static str {
        "T"
    }
    fn generate(&self, rng: &mut Rng, tier: Tier) -> MetricParams {
        let n = 2 + rng.below(2) as usize;
        let max_ops = if tier == Tier::Thorough { 6 } else { 4 };
        let recorders = (0..n)
            .map(|_| {
                let len = 1 + rng.below(max_ops) as usize;
                (0..len).map(|_| if rng.chance(1, 6) { -4 } else { rng.below(40_000) as i32 }).collect()
            })
            .collect();
        let mut sched = SchedSpec::draw(rng);
        sched.weak_cas = 0;
        // "counter jump": the metric starts as if many measurements (averaging 0.0) had been recorded before -- around the
        // powers of two where an f32 / u32 slip would show (never next to the documented reset at u32::MAX)
        if rng.chance(1, 4) {
            let base: u32 = *rng.pick(&[1 << 8, 1 << 16, 1 << 23, 1 << 24, 1 << 24, 1 << 25, 1 << 31, 1_000_000, 3_000_000_000]);
            sched.metric_origin = base - rng.below(14) as u32;
        }
        MetricParams { sched, recorders, probes: rng.below(6) as u32 }
    }
    fn sched<'a>(&self, p: &'a MetricParams) -> &'a SchedSpec {
        &p.sched
    }
    fn with_sched(&self, p: &MetricParams, s: SchedSpec) -> MetricParams {
        let mut q = p.clone();
        q.sched = s;
        q
    }
    fn body(&self, p: &MetricParams) -> Option<Body> {
        let p2 = p.clone();
        Some(Arc::new(move || metrics_body(&p2)))
    }
    fn shrink(&self, p: &MetricParams) -> Vec<MetricParams> {
        let mut out = vec![];
        if p.recorders.len() > 1 {
            for i in 0..p.recorders.len() {
                let mut q = p.clone();
                q.recorders.remove(i);
                out.push(q);
            }
        }
        for i in 0..p.recorders.len() {
            if p.recorders[i].len() > 1 {
                for j in (0..p.recorders[i].len()).rev() {
                    let mut q = p.clone();
                    q.recorders[i].remove(j);
                    out.push(q);
                }
            }
        }
        if p.probes > 0 {
            let mut q = p.clone();
            q.probes -= 1;
            out.push(q);
        }
        if p.sched.stall > 0 {
            let mut q = p.clone();
            q.sched.stall = 0;
            out.push(q);
        }
        out
    }
    fn size(&self, p: &MetricParams) -> u64 {
        p.recorders.iter().map(|t| t.len() as u64).sum::<u64>() * 4 + p.probes as u64
    }
    fn components(&self) -> serde_json::Value {
        serde_json::json!({"real": ["reactive-mutiny AtomicIncrementalAverage64 (/repo working tree, feature verif)"], "stub": []})
    }
    fn assumptions(&self) -> Vec<String> {
        vec![
            "sequential consistency at the instrumented AtomicU64".into(),
            "only probe() is judged for pair consistency: lightweight_probe() is documented upstream as possibly out of sync".into(),
            "floating-point tolerance 2e-4 x the largest |measurement| of the run".into(),
            "counts far below the documented u32::MAX reset".into(),
        ]
    }
}
